// C14 harness: etl bit / integer utilities (impl leg) vs libstdc++ <bit>/<numeric>/<utility> and
// exact __int128 arithmetic (reference leg).
//
// Case lines (types: i8 u8 i16 u16 i32 u32 i64 u64, plus ill/ull = long long / unsigned long long):
//   bits  <ut> <x>            popcount popcount_fallback countl_zero countl_one countr_zero countr_one
//                             bit_width bit_floor has_single_bit bit_ceil('-' outside its domain)
//   rot   <ut> <x> <s>        rotl rotr
//   bit   <ut> <word> <pos>   set_bit reset_bit flip_bit test_bit set_bit(..,false) set_bit(..,true)
//   tbit  <ut> <word> <Pos>   the template<size_t Pos> overloads, Pos < digits: set_bit<Pos>(word) reset_bit<Pos>(word)
//                             flip_bit<Pos>(word) test_bit<Pos>(word) set_bit<Pos>(word,false) set_bit<Pos>(word,true)
//                             (every Pos of every type is instantiated; Pos >= digits does not compile: `static_assert`)
//   ipowb <t> <Base> <e>      ipow<Base>(e) for Base in {0,1,2,3,10,-1,-2} (the shift for Base == 2, else ipow(Base, e))
//   bswap <t> <x>             byteswap [byteswap_fallback for unsigned 16/32/64]
//   hton  <t> <x>             hton ntoh                    (t in u8 i8 c8 u16 u32; c8 = char)
//   add_sat <t> <x> <y>       add_sat add_sat_fallback
//   div_sat <t> <x> <y>
//   midpoint <t> <a> <b>
//   gcd <tm> <tn> <m> <n>     lcm <tm> <tn> <m> <n>
//   abs <t> <x>   idiv <t> <x> <y>   ipow <t> <b> <e>   ipow2 <t> <e>   ilog2 <t> <x>
//   cmp <tt> <tu> <t> <u>     cmp_equal cmp_not_equal cmp_less cmp_greater cmp_less_equal cmp_greater_equal
//   conv <to> <from> <x>      in_range<To> saturate_cast<To>
//   ctbits <ut> <10 values>  the legs of `bits` for the fixed table of ct_bits<T>::vals, joined by " ; ", with the impl leg
//                             evaluated by the CONSTANT EVALUATOR when built with -DC14_CT_TABLE (constexpr table: the
//                             is_constant_evaluated() branch of popcount, and any UB would be a compile error; builds
//                             `ubsan` and `clang`), at run time otherwise (build `main`); the values are passed for the model
//   row <lo> <hi> <op> <args...>   runs "<op> <args...> y" for every y in [lo, hi]; the legs are the
//                             per-y legs joined by " ; "
//   rox <lo> <hi> <op> <args...> <last>   the same with y inserted before the last argument
//   swp / swx <lo> <hi> <op> <args...>    as row / rox with the legs digested: "ok n=<count> h=<hash of the sub-legs>
//                             bad=<first y whose impl sub-leg differs from the reference sub-leg, or ->" (full 2^16 sweeps)
#include "common.hpp"

#include <algorithm>
#include <array>
#include <arpa/inet.h>
#include <bit>
#include <limits>
#include <numeric>
#include <type_traits>
#include <utility>

#include <etl/bit.hpp>
#include <etl/cstdint.hpp>
#include <etl/numeric.hpp>
#include <etl/utility.hpp>
#include <etl/_math/idiv.hpp>
#include <etl/_math/ilog2.hpp>
#include <etl/_math/ipow.hpp>
#include <etl/experimental/net/byte_order.hpp>

using namespace vh;
using u128 = unsigned __int128;

template <typename T>
struct tag {
    using type = T;
};

// ---- type dispatch ---------------------------------------------------------------------
template <typename F>
static bool with_fixed(std::string const& t, F&& f)
{
    if (t == "i8") { f(tag<signed char>{}); return true; }
    if (t == "u8") { f(tag<unsigned char>{}); return true; }
    if (t == "i16") { f(tag<short>{}); return true; }
    if (t == "u16") { f(tag<unsigned short>{}); return true; }
    if (t == "i32") { f(tag<int>{}); return true; }
    if (t == "u32") { f(tag<unsigned>{}); return true; }
    if (t == "i64") { f(tag<long>{}); return true; }
    if (t == "u64") { f(tag<unsigned long>{}); return true; }
    return false;
}
template <typename F>
static bool with_type(std::string const& t, F&& f)
{
    if (with_fixed(t, f)) { return true; }
    if (t == "ill") { f(tag<long long>{}); return true; }
    if (t == "ull") { f(tag<unsigned long long>{}); return true; }
    return false;
}
template <typename F>
static bool with_unsigned(std::string const& t, F&& f)
{
    if (t == "u8") { f(tag<unsigned char>{}); return true; }
    if (t == "u16") { f(tag<unsigned short>{}); return true; }
    if (t == "u32") { f(tag<unsigned>{}); return true; }
    if (t == "u64") { f(tag<unsigned long>{}); return true; }
    if (t == "ull") { f(tag<unsigned long long>{}); return true; }
    return false;
}

template <typename T>
static T parse(std::string const& s)
{
    if constexpr (std::is_signed_v<T>) {
        return static_cast<T>(std::strtoll(s.c_str(), nullptr, 10));
    } else {
        return static_cast<T>(std::strtoull(s.c_str(), nullptr, 10));
    }
}
template <typename T>
static Out& put(Out& o, T v)
{
    if constexpr (std::is_same_v<T, bool>) {
        return o.b(v);
    } else if constexpr (std::is_signed_v<T>) {
        return o.num(static_cast<i64>(v));
    } else {
        return o.unum(static_cast<u64>(v));
    }
}
template <typename T>
static constexpr i128 lo_of() { return static_cast<i128>(std::numeric_limits<T>::min()); }
template <typename T>
static constexpr i128 hi_of() { return static_cast<i128>(std::numeric_limits<T>::max()); }
template <typename T>
static bool fits(i128 v) { return lo_of<T>() <= v && v <= hi_of<T>(); }
template <typename T>
static i128 clampT(i128 v) { return v < lo_of<T>() ? lo_of<T>() : (v > hi_of<T>() ? hi_of<T>() : v); }
static i128 iabs(i128 v) { return v < 0 ? -v : v; }
static i128 igcd(i128 a, i128 b)
{
    a = iabs(a);
    b = iabs(b);
    while (b != 0) { auto r = a % b; a = b; b = r; }
    return a;
}

// ---- compile-time evaluated table (constant-evaluation path of the <bit> functions) --------------------------
template <typename T>
struct ct_bits {
    static constexpr int N = 10;
    static constexpr T mx = std::numeric_limits<T>::max();
    static constexpr T vals[N] = {T(0), T(1), T(2), T(3), T(5), T(mx / 3), T(mx / 2), T(mx / 2 + 1), T(mx - 1), mx};
    struct R {
        int pc, pcf, clz, clo, ctz, cto, bw;
        T bf;
        bool hsb;
        T bc;
        bool bc_ok;
    };
    static constexpr R eval(T x)
    {
        R r{};
        r.pc = etl::popcount(x);
        r.pcf = etl::detail::popcount_fallback(x);
        r.clz = etl::countl_zero(x);
        r.clo = etl::countl_one(x);
        r.ctz = etl::countr_zero(x);
        r.cto = etl::countr_one(x);
        r.bw = etl::bit_width(x);
        r.bf = etl::bit_floor(x);
        r.hsb = etl::has_single_bit(x);
        r.bc_ok = x <= T(mx / 2 + 1);
        r.bc = r.bc_ok ? etl::bit_ceil(x) : T(0);
        return r;
    }
    static constexpr std::array<R, N> make()
    {
        std::array<R, N> t{};
        for (int i = 0; i < N; ++i) { t[static_cast<std::size_t>(i)] = eval(vals[i]); }
        return t;
    }
#ifdef C14_CT_TABLE
    // evaluated at compile time (builds `ubsan` and `clang`: g++'s and clang's constant evaluators).  The `main` build
    // evaluates the same values at run time instead, so that undefined behaviour met by a constant evaluator (a compile
    // error) breaks only those two builds and `main` still reports the failing input
    static constexpr std::array<R, N> table = make();
#endif
};

// ---- template<size_t Pos> overloads of the single-bit functions: run-time Pos -> instantiation ---------------------
template <typename T, std::size_t P>
static void tpl_emit(T word, Out& o)
{
    put(o, etl::set_bit<P>(word));
    put(o, etl::reset_bit<P>(word));
    put(o, etl::flip_bit<P>(word));
    o.b(etl::test_bit<P>(word));
    put(o, etl::set_bit<P>(word, false));
    put(o, etl::set_bit<P>(word, true));
}
template <typename T, std::size_t... P>
static bool tpl_dispatch(u64 pos, T word, Out& o, std::index_sequence<P...>)
{
    return ((pos == P ? (tpl_emit<T, P>(word, o), true) : false) || ...);
}

// ---- ipow<Base>: run-time base -> instantiation -----------------------------------------------------------------
template <typename T, int... B>
static bool ipowb_dispatch(i64 base, T e, Out& o, std::integer_sequence<int, B...>)
{
    return ((base == B ? (put(o, etl::ipow<static_cast<T>(B)>(e)), true) : false) || ...);
}

// ---- single cases -----------------------------------------------------------------------
static bool run_one(std::string const& op, Toks& in, Out& impl, Out& ref)
{
    if (op == "bits") {
        auto t = in.str();
        auto xs = in.str();
        return with_unsigned(t, [&](auto tg) {
            using T = typename decltype(tg)::type;
            constexpr int W = std::numeric_limits<T>::digits;
            T x = parse<T>(xs);
            bool ceil_ok = static_cast<u128>(x) <= (static_cast<u128>(1) << (W - 1));
            guarded(impl, [&](Out& o) {
                o.tok("ok").num(etl::popcount(x)).num(etl::detail::popcount_fallback(x)).num(etl::countl_zero(x))
                    .num(etl::countl_one(x)).num(etl::countr_zero(x)).num(etl::countr_one(x)).num(etl::bit_width(x));
                put(o, etl::bit_floor(x)).b(etl::has_single_bit(x));
                if (ceil_ok) { put(o, etl::bit_ceil(x)); } else { o.tok("-"); }
            });
            ref.tok("ok").num(std::popcount(x)).num(std::popcount(x)).num(std::countl_zero(x)).num(std::countl_one(x))
                .num(std::countr_zero(x)).num(std::countr_one(x)).num(static_cast<i64>(std::bit_width(x)));
            put(ref, std::bit_floor(x)).b(std::has_single_bit(x));
            if (ceil_ok) { put(ref, std::bit_ceil(x)); } else { ref.tok("-"); }
        });
    }
    if (op == "ctbits") {
        auto t = in.str();
        std::vector<std::string> vs;
        while (in.more()) { vs.push_back(in.str()); }
        return with_unsigned(t, [&](auto tg) {
            using T = typename decltype(tg)::type;
            using C = ct_bits<T>;
            bool same = static_cast<int>(vs.size()) == C::N;
            for (int i = 0; same && i < C::N; ++i) { same = parse<T>(vs[static_cast<std::size_t>(i)]) == C::vals[i]; }
            if (!same) { impl.tok("table-mismatch"); ref.tok("table-mismatch-ref"); return; }
            for (int i = 0; i < C::N; ++i) {
                T x = C::vals[i];
#ifdef C14_CT_TABLE
                auto const& r = C::table[static_cast<std::size_t>(i)];
#else
                auto const r = C::eval(parse<T>(vs[static_cast<std::size_t>(i)]));
#endif
                if (i != 0) { impl.tok(";"); ref.tok(";"); }
                impl.tok("ok").num(r.pc).num(r.pcf).num(r.clz).num(r.clo).num(r.ctz).num(r.cto).num(r.bw);
                put(impl, r.bf).b(r.hsb);
                if (r.bc_ok) { put(impl, r.bc); } else { impl.tok("-"); }
                ref.tok("ok").num(std::popcount(x)).num(std::popcount(x)).num(std::countl_zero(x)).num(std::countl_one(x))
                    .num(std::countr_zero(x)).num(std::countr_one(x)).num(static_cast<i64>(std::bit_width(x)));
                put(ref, std::bit_floor(x)).b(std::has_single_bit(x));
                if (r.bc_ok) { put(ref, std::bit_ceil(x)); } else { ref.tok("-"); }
            }
        });
    }
    if (op == "rot") {
        auto t = in.str();
        auto xs = in.str();
        int s = static_cast<int>(in.num());
        return with_unsigned(t, [&](auto tg) {
            using T = typename decltype(tg)::type;
            T x = parse<T>(xs);
            guarded(impl, [&](Out& o) { o.tok("ok"); put(o, etl::rotl(x, s)); put(o, etl::rotr(x, s)); });
            ref.tok("ok");
            put(ref, std::rotl(x, s));
            put(ref, std::rotr(x, s));
        });
    }
    if (op == "bit") {
        auto t = in.str();
        auto ws = in.str();
        auto ps = in.str();
        return with_unsigned(t, [&](auto tg) {
            using T = typename decltype(tg)::type;
            constexpr int W = std::numeric_limits<T>::digits;
            T word = parse<T>(ws);
            T pos = parse<T>(ps);
            guarded(impl, [&](Out& o) {
                o.tok("ok");
                put(o, etl::set_bit(word, pos));
                put(o, etl::reset_bit(word, pos));
                put(o, etl::flip_bit(word, pos));
                o.b(etl::test_bit(word, pos));
                put(o, etl::set_bit(word, pos, false));
                put(o, etl::set_bit(word, pos, true));
            });
            if (static_cast<u64>(pos) < static_cast<u64>(W)) {
                // exact arithmetic: adding / removing 2^pos
                u128 p2 = static_cast<u128>(1) << static_cast<int>(pos);
                u128 wv = word;
                bool b = ((wv / p2) % 2) == 1;
                u128 set = b ? wv : wv + p2;
                u128 clr = b ? wv - p2 : wv;
                ref.tok("ok").unum(static_cast<u64>(set)).unum(static_cast<u64>(clr)).unum(static_cast<u64>(b ? clr : set)).b(b)
                    .unum(static_cast<u64>(clr)).unum(static_cast<u64>(set));
            }
        });
    }
    if (op == "tbit") {
        auto t = in.str();
        auto ws = in.str();
        auto ps = in.str();
        return with_unsigned(t, [&](auto tg) {
            using T = typename decltype(tg)::type;
            constexpr int W = std::numeric_limits<T>::digits;
            T word = parse<T>(ws);
            u64 pos = parse<u64>(ps);
            if (pos >= static_cast<u64>(W)) { impl.tok("static_assert"); return; }
            guarded(impl, [&](Out& o) {
                o.tok("ok");
                if (!tpl_dispatch<T>(pos, word, o, std::make_index_sequence<static_cast<std::size_t>(W)>{})) { o.tok("no-instantiation"); }
            });
            u128 p2 = static_cast<u128>(1) << static_cast<int>(pos);
            u128 wv = word;
            bool b = ((wv / p2) % 2) == 1;
            u128 set = b ? wv : wv + p2;
            u128 clr = b ? wv - p2 : wv;
            ref.tok("ok").unum(static_cast<u64>(set)).unum(static_cast<u64>(clr)).unum(static_cast<u64>(b ? clr : set)).b(b)
                .unum(static_cast<u64>(clr)).unum(static_cast<u64>(set));
        });
    }
    if (op == "ipowb") {
        auto t = in.str();
        i64 base = in.num();
        auto es = in.str();
        return with_type(t, [&](auto tg) {
            using T = typename decltype(tg)::type;
            T e = parse<T>(es);
            i128 X = base;
            i128 Y = e;
            if (!fits<T>(X)) { impl.tok("no-instantiation"); return; }
            guarded(impl, [&](Out& o) {
                o.tok("ok");
                bool done = false;
                if constexpr (std::is_signed_v<T>) {
                    done = ipowb_dispatch<T>(base, e, o, std::integer_sequence<int, 0, 1, 2, 3, 10, -1, -2>{});
                } else {
                    done = ipowb_dispatch<T>(base, e, o, std::integer_sequence<int, 0, 1, 2, 3, 10>{});
                }
                if (!done) { o.tok("no-instantiation"); }
            });
            if (Y >= 0) {
                i128 r = 1;
                bool okp = true;
                for (i128 k = 0; k < Y && okp; ++k) {
                    if (iabs(X) > 1 && iabs(r) > (static_cast<i128>(1) << 64) / iabs(X)) { okp = false; break; }
                    r *= X;
                    if (!fits<T>(r)) { okp = false; }
                    if (r == 0 || r == 1) { break; }
                    if (r == -1) { r = ((Y - k - 1) % 2 == 0) ? -1 : 1; break; }
                }
                if (okp) { ref.tok("ok"); put(ref, static_cast<T>(r)); }
            }
        });
    }
    if (op == "bswap") {
        auto t = in.str();
        auto xs = in.str();
        return with_type(t, [&](auto tg) {
            using T = typename decltype(tg)::type;
            T x = parse<T>(xs);
            guarded(impl, [&](Out& o) {
                o.tok("ok");
                put(o, etl::byteswap(x));
                if constexpr (std::is_unsigned_v<T> && sizeof(T) == 2) { put(o, etl::detail::byteswap_fallback(static_cast<etl::uint16_t>(x))); }
                if constexpr (std::is_unsigned_v<T> && sizeof(T) == 4) { put(o, etl::detail::byteswap_fallback(static_cast<etl::uint32_t>(x))); }
                if constexpr (std::is_unsigned_v<T> && sizeof(T) == 8) { put(o, etl::detail::byteswap_fallback(static_cast<etl::uint64_t>(x))); }
            });
            unsigned char b[sizeof(T)];
            std::memcpy(b, &x, sizeof(T));
            std::reverse(b, b + sizeof(T));
            T r;
            std::memcpy(&r, b, sizeof(T));
            ref.tok("ok");
            put(ref, r);
            if constexpr (std::is_unsigned_v<T> && sizeof(T) > 1) { put(ref, r); }
        });
    }
    if (op == "hton") {
        namespace net = etl::experimental::net;
        auto t = in.str();
        auto xs = in.str();
        if (t == "u8") {
            auto x = parse<etl::uint8_t>(xs);
            guarded(impl, [&](Out& o) { o.tok("ok"); put(o, net::hton(x)); put(o, net::ntoh(x)); });
            ref.tok("ok"); put(ref, x); put(ref, x);
            return true;
        }
        if (t == "i8") {
            auto x = parse<etl::int8_t>(xs);
            guarded(impl, [&](Out& o) { o.tok("ok"); put(o, net::hton(x)); put(o, net::ntoh(x)); });
            ref.tok("ok"); put(ref, x); put(ref, x);
            return true;
        }
        if (t == "c8") {
            auto x = static_cast<char>(parse<etl::int8_t>(xs));
            guarded(impl, [&](Out& o) { o.tok("ok"); put(o, static_cast<etl::int8_t>(net::hton(x))); put(o, static_cast<etl::int8_t>(net::ntoh(x))); });
            static_assert(std::is_same_v<decltype(net::hton(x)), char> && std::is_same_v<decltype(net::ntoh(x)), char>);
            ref.tok("ok"); put(ref, static_cast<etl::int8_t>(x)); put(ref, static_cast<etl::int8_t>(x));
            return true;
        }
        if (t == "u16") {
            auto x = parse<etl::uint16_t>(xs);
            guarded(impl, [&](Out& o) { o.tok("ok"); put(o, net::hton(x)); put(o, net::ntoh(x)); });
            ref.tok("ok"); put(ref, static_cast<etl::uint16_t>(htons(x))); put(ref, static_cast<etl::uint16_t>(ntohs(x)));
            return true;
        }
        if (t == "u32") {
            auto x = parse<etl::uint32_t>(xs);
            guarded(impl, [&](Out& o) { o.tok("ok"); put(o, net::hton(x)); put(o, net::ntoh(x)); });
            ref.tok("ok"); put(ref, static_cast<etl::uint32_t>(htonl(x))); put(ref, static_cast<etl::uint32_t>(ntohl(x)));
            return true;
        }
        return false;
    }
    if (op == "add_sat" || op == "div_sat" || op == "midpoint" || op == "idiv" || op == "ipow") {
        auto t = in.str();
        auto xs = in.str();
        auto ys = in.str();
        return with_type(t, [&](auto tg) {
            using T = typename decltype(tg)::type;
            T x = parse<T>(xs);
            T y = parse<T>(ys);
            i128 X = x;
            i128 Y = y;
            if (op == "add_sat") {
                guarded(impl, [&](Out& o) { o.tok("ok"); put(o, etl::add_sat(x, y)); put(o, etl::detail::add_sat_fallback(x, y)); });
                T r = static_cast<T>(clampT<T>(X + Y));
                ref.tok("ok"); put(ref, r); put(ref, r);
            } else if (op == "div_sat") {
                guarded(impl, [&](Out& o) { o.tok("ok"); put(o, etl::div_sat(x, y)); });
                if (y != 0) { ref.tok("ok"); put(ref, static_cast<T>(clampT<T>(X / Y))); }
            } else if (op == "midpoint") {
                guarded(impl, [&](Out& o) { o.tok("ok"); put(o, etl::midpoint(x, y)); });
                ref.tok("ok"); put(ref, std::midpoint(x, y));
            } else if (op == "idiv") {
                guarded(impl, [&](Out& o) { auto r = etl::idiv(x, y); o.tok("ok"); put(o, r.quot); put(o, r.rem); });
                if (y != 0 && fits<T>(X / Y)) { ref.tok("ok"); put(ref, static_cast<T>(X / Y)); put(ref, static_cast<T>(X % Y)); }
            } else {
                guarded(impl, [&](Out& o) { o.tok("ok"); put(o, etl::ipow(x, y)); });
                // exact power; na when the exponent is negative or the power is not representable
                if (Y >= 0) {
                    i128 r = 1;
                    bool okp = true;
                    for (i128 k = 0; k < Y && okp; ++k) {
                        if (iabs(X) > 1 && iabs(r) > (static_cast<i128>(1) << 64) / iabs(X)) { okp = false; break; }
                        r *= X;
                        if (!fits<T>(r)) { okp = false; }
                        if (r == 0 || r == 1) { break; }
                        if (r == -1) { r = ((Y - k - 1) % 2 == 0) ? -1 : 1; break; }
                    }
                    if (okp) { ref.tok("ok"); put(ref, static_cast<T>(r)); }
                }
            }
        });
    }
    if (op == "gcd" || op == "lcm") {
        auto tm = in.str();
        auto tn = in.str();
        auto ms = in.str();
        auto ns = in.str();
        bool isg = op == "gcd";
        bool okk = false;
        with_type(tm, [&](auto tgm) {
            using M = typename decltype(tgm)::type;
            okk = with_type(tn, [&](auto tgn) {
                using N = typename decltype(tgn)::type;
                using R = std::common_type_t<M, N>;
                M m = parse<M>(ms);
                N n = parse<N>(ns);
                i128 g = igcd(m, n);
                if (isg) {
                    static_assert(std::is_same_v<decltype(etl::gcd(m, n)), R>);
                    static_assert(std::is_same_v<decltype(etl::lcm(m, n)), R>);
                    guarded(impl, [&](Out& o) { o.tok("ok"); put<R>(o, etl::gcd(m, n)); });
                    if (fits<R>(g)) { ref.tok("ok"); put(ref, static_cast<R>(g)); }
                } else {
                    guarded(impl, [&](Out& o) { o.tok("ok"); put<R>(o, etl::lcm(m, n)); });
                    // |m| / g * |n| <= 2^64 / 1 * 2^64 does not fit __int128 only if both are huge; divide first
                    i128 l = (m == 0 || n == 0) ? 0 : (iabs(m) / g);
                    bool okl = true;
                    if (l != 0) {
                        i128 bn = iabs(n);
                        if (l > hi_of<R>() / bn) { okl = false; } else { l *= bn; }
                    }
                    if (okl && fits<R>(l)) { ref.tok("ok"); put(ref, static_cast<R>(l)); }
                }
            });
        });
        return okk;
    }
    if (op == "abs" || op == "ilog2" || op == "ipow2") {
        auto t = in.str();
        auto xs = in.str();
        return with_type(t, [&](auto tg) {
            using T = typename decltype(tg)::type;
            T x = parse<T>(xs);
            i128 X = x;
            if (op == "abs") {
                guarded(impl, [&](Out& o) { o.tok("ok"); put(o, etl::abs(x)); });
                if (fits<T>(iabs(X))) { ref.tok("ok"); put(ref, static_cast<T>(iabs(X))); }
            } else if (op == "ilog2") {
                guarded(impl, [&](Out& o) { o.tok("ok"); put(o, etl::ilog2(x)); });
                if (X >= 1) { ref.tok("ok"); put(ref, static_cast<T>(std::bit_width(static_cast<u64>(x)) - 1)); }
            } else {
                guarded(impl, [&](Out& o) { o.tok("ok"); put(o, etl::ipow<T(2)>(x)); });
                if (X >= 0 && X < 127 && fits<T>(static_cast<i128>(1) << static_cast<int>(X))) {
                    ref.tok("ok");
                    put(ref, static_cast<T>(static_cast<i128>(1) << static_cast<int>(X)));
                }
            }
        });
    }
    if (op == "cmp" || op == "conv") {
        auto ta = in.str();
        auto tb = in.str();
        auto as = in.str();
        auto bs = in.str();
        bool isc = op == "cmp";
        bool okk = false;
        with_type(ta, [&](auto tga) {
            using A = typename decltype(tga)::type;
            okk = with_type(tb, [&](auto tgb) {
                using B = typename decltype(tgb)::type;
                if (isc) {
                    A a = parse<A>(as);
                    B b = parse<B>(bs);
                    guarded(impl, [&](Out& o) {
                        o.tok("ok").b(etl::cmp_equal(a, b)).b(etl::cmp_not_equal(a, b)).b(etl::cmp_less(a, b))
                            .b(etl::cmp_greater(a, b)).b(etl::cmp_less_equal(a, b)).b(etl::cmp_greater_equal(a, b));
                    });
                    ref.tok("ok").b(std::cmp_equal(a, b)).b(std::cmp_not_equal(a, b)).b(std::cmp_less(a, b))
                        .b(std::cmp_greater(a, b)).b(std::cmp_less_equal(a, b)).b(std::cmp_greater_equal(a, b));
                } else {
                    // conv <to = A> <from = B> <x>
                    B x = parse<B>(as);
                    guarded(impl, [&](Out& o) { o.tok("ok").b(etl::in_range<A>(x)); put(o, etl::saturate_cast<A>(x)); });
                    ref.tok("ok").b(std::in_range<A>(x));
                    put(ref, static_cast<A>(clampT<A>(static_cast<i128>(x))));
                }
            });
        });
        return okk;
    }
    return false;
}

// digest of a sequence of sub-legs (the same two polynomial hashes in driver.ml)
struct Digest {
    u64 a = 7;
    u64 b = 11;
    void add(std::string const& s)
    {
        for (unsigned char c : s) {
            a = (a * 1000003ULL + c) % 2147483647ULL;
            b = (b * 999983ULL + c) % 2147483629ULL;
        }
        a = (a * 1000003ULL + 59ULL) % 2147483647ULL;
        b = (b * 999983ULL + 59ULL) % 2147483629ULL;
    }
    std::string str() const { return std::to_string(a) + "." + std::to_string(b); }
};

bool vh::run_case(std::string const& op, Toks& in, Out& impl, Out& ref)
{
    if (op != "row" && op != "rox" && op != "swp" && op != "swx") { return run_one(op, in, impl, ref); }
    bool before_last = op == "rox" || op == "swx";
    // swp / swx: as row / rox, but the legs are "ok n=<count> h=<digest of the sub-legs> bad=<first y whose impl
    // sub-leg differs from its reference sub-leg, or ->" (whole 2^16 sweeps without 2^16 sub-legs of text)
    bool digest = op == "swp" || op == "swx";
    Digest di;
    Digest dr;
    i64 count = 0;
    std::string bad = "-";
    i64 lo = in.num();
    i64 hi = in.num();
    std::string sub = in.str();
    std::vector<std::string> args;
    while (in.more()) { args.push_back(in.str()); }
    bool all = true;
    for (i64 y = lo; y <= hi; ++y) {
        Toks t("");
        t.t = args;
        if (before_last && !t.t.empty()) {
            t.t.insert(t.t.end() - 1, std::to_string(y));
        } else {
            t.t.push_back(std::to_string(y));
        }
        Out i1;
        Out r1;
        if (!run_one(sub, t, i1, r1)) { all = false; }
        if (i1.empty()) { i1.tok("void"); }
        // outside the documented domain (reference "na") only impl = model is checked: the row's
        // reference leg repeats the impl sub-leg there (the driver does the same with the model's)
        if (r1.empty() || r1.s == "na") { r1.s = i1.s; }
        if (digest) {
            di.add(i1.s);
            dr.add(r1.s);
            ++count;
            if (bad == "-" && i1.s != r1.s) { bad = std::to_string(y); }
            continue;
        }
        if (y != lo) { impl.tok(";"); ref.tok(";"); }
        impl.tok(i1.s);
        ref.tok(r1.s);
    }
    if (digest) {
        impl.tok("ok").tok("n=" + std::to_string(count)).tok("h=" + di.str()).tok("bad=" + bad);
        ref.tok("ok").tok("n=" + std::to_string(count)).tok("h=" + dr.str()).tok("bad=-");
    }
    return all;
}

VERIF_MAIN()
