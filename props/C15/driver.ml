(* C15 driver.
   Two modes:
   (1) default: the framework's case protocol on stdin (run-time observable parts: numeric_limits
       members as numbers, ratio results for the checked-in grid) -> "<model leg> | <spec leg>";
   (2) `--emit <tier> <gcc|clang> <seed>`: GENERATES the compile-time obligations.  The zoo of C++
       types is enumerated as terms of the Coq type universe (Types.v), filtered by the extracted
       well-formedness predicate [wf], PRINTED to C++ (classes/unions/enums are generated from their
       descriptors), and for every (trait, type) the extracted model value and the extracted spec
       value are printed as C++ constant expressions / types inside static_assert conditions.
       Output lines (tab separated):
         H <text>                                  prelude / declaration line, goes into every TU
         O <leg> <trait> <type key> <condition>    one obligation = one static_assert(<condition>)
              leg = corr    : etl value/type == extracted MODEL value/type
                    specval : std value/type == extracted SPEC value/type
                    prop    : etl == std directly (traits that are compiler intrinsics or outside the model)
         M <trait> <type key> <model> <spec>       model and spec differ on this input
         N <leg> <trait> <key> <expect 0|1> <snippet>   must (1) / must not (0) compile, own TU
   Parsing/printing only; all values come from the extraction. *)

let sp = Printf.sprintf

(* the platform parameter of ModelPlat.v: signed plain char (compilers' default on x86-64) or unsigned plain char
   (-funsigned-char; the harness variant `uchar` runs this driver with C15_PLAIN_CHAR=unsigned, the compile-time
   configurations `gcc-uchar` / `clang-uchar` pass it through the configuration name) *)
let plat : platform ref = ref x86_64_default
let () = match Sys.getenv_opt "C15_PLAIN_CHAR" with Some "unsigned" -> plat := unsigned_char_abi | _ -> ()
let rec mentions_char = function
  | Arith AChar -> true
  | Enum (_, AChar, _) -> true
  | Ptr u | LRef u | RRef u | Arr (u, _) | Cv (_, _, u) | MemPtr (_, u) -> mentions_char u
  | Fn (r, args, _, _, _, _, _) -> List.exists mentions_char (r :: args)
  | _ -> false
let rec perms = function
  | [] -> [ [] ]
  | l -> List.concat (List.mapi (fun i x -> List.map (fun q -> x :: q) (perms (List.filteri (fun j _ -> j <> i) l))) l)

(* ------------------------------------------------------------------ names *)
let arith_name = function
  | ABool -> "bool" | AChar -> "char" | ASChar -> "signed char" | AUChar -> "unsigned char"
  | AWChar -> "wchar_t" | AChar8 -> "char8_t" | AChar16 -> "char16_t" | AChar32 -> "char32_t"
  | AShort -> "short" | AUShort -> "unsigned short" | AInt -> "int" | AUInt -> "unsigned int"
  | ALong -> "long" | AULong -> "unsigned long" | ALLong -> "long long"
  | AULLong -> "unsigned long long" | AFloat -> "float" | ADouble -> "double"
  | ALDouble -> "long double"
let arith_tag = function
  | ABool -> "b" | AChar -> "c" | ASChar -> "sc" | AUChar -> "uc" | AWChar -> "wc" | AChar8 -> "c8"
  | AChar16 -> "c16" | AChar32 -> "c32" | AShort -> "s" | AUShort -> "us" | AInt -> "i"
  | AUInt -> "u" | ALong -> "l" | AULong -> "ul" | ALLong -> "ll" | AULLong -> "ull"
  | AFloat -> "f" | ADouble -> "d" | ALDouble -> "ld"
let arith_of_tag s = List.find (fun a -> arith_tag a = s) all_arith
let sm_tag = function SImplicit -> "i" | SDefault -> "d" | SDelete -> "x" | SUser -> "u" | SUserThrow -> "t"
let b01 b = if b then "1" else "0"
let cls_name prefix d =
  sp "%s%s_%s%s%s%s%s%s_%s%s%s%s%s%s" prefix (str_of_n d.cid) (b01 d.c_final) (b01 d.c_data)
    (b01 d.c_private) (b01 d.c_virt) (b01 d.c_pure) (b01 d.c_vdtor) (sm_tag d.c_dctor)
    (sm_tag d.c_cctor) (sm_tag d.c_mctor) (sm_tag d.c_cassign) (sm_tag d.c_massign) (sm_tag d.c_dtor)
let enum_name scoped under id = sp "E%s_%s_%s" (str_of_n id) (if scoped then "s" else "u") (arith_tag under)

(* ------------------------------------------------------------------ printer *)
let rq_code = function RQnone -> 0 | RQlref -> 1 | RQrref -> 2
let rec cxx (t : cty) : string =
  match t with
  | Void -> "void"
  | Nullptr -> "decltype(nullptr)"
  | Arith a -> arith_name a
  | Enum (s, u, id) -> "z::" ^ enum_name s u id
  | Ptr u -> "z::P<" ^ cxx u ^ ">"
  | LRef u -> "z::LR<" ^ cxx u ^ ">"
  | RRef u -> "z::RR<" ^ cxx u ^ ">"
  | Arr (e, Some n) -> sp "z::A<%s, %s>" (cxx e) (str_of_n n)
  | Arr (e, None) -> "z::AU<" ^ cxx e ^ ">"
  | Fn (r, args, c, v, q, ne, va) ->
      sp "z::FN%s%s%d%s%s<%s>" (b01 c) (b01 v) (rq_code q) (b01 ne) (b01 va)
        (String.concat ", " (List.map cxx (r :: args)))
  | MemPtr (d, u) -> sp "z::MP<%s, z::%s>" (cxx u) (cls_name "C" d)
  | Class d -> "z::" ^ cls_name "C" d
  | Union d -> "z::" ^ cls_name "U" d
  | Cv (c, v, u) ->
      (if c && v then "z::CVQ<" else if c then "z::CQ<" else "z::VQ<") ^ cxx u ^ ">"

(* declarations needed by a type, in dependency order *)
let sm_text name kind st =
  let sig_ = match kind with
    | `D -> sp "%s()" name
    | `CC -> sp "%s(%s const&)" name name
    | `MC -> sp "%s(%s&&)" name name
    | `CA -> sp "%s& operator=(%s const&)" name name
    | `MA -> sp "%s& operator=(%s&&)" name name in
  let body = match kind with `CA | `MA -> "{ return *this; }" | _ -> "{ }" in
  match st with
  | SImplicit -> ""
  | SDefault -> sp " %s = default;" sig_
  | SDelete -> sp " %s = delete;" sig_
  | SUser -> sp " %s noexcept %s" sig_ body
  | SUserThrow -> sp " %s noexcept(false) %s" sig_ body
let dtor_text name virt st =
  let v = if virt then "virtual " else "" in
  match st with
  | SImplicit -> ""
  | SDefault -> sp " %s~%s() = default;" v name
  | SDelete -> sp " %s~%s() = delete;" v name
  | SUser -> sp " %s~%s() { }" v name
  | SUserThrow -> sp " %s~%s() noexcept(false) { }" v name
let class_def key prefix d =
  let name = cls_name prefix d in
  sp "%s %s%s {%s%s%s%s%s%s%s%s%s%s };" key name (if d.c_final then " final" else "")
    (if d.c_data then " int m;" else "")
    (if d.c_virt then " virtual void f();" else "")
    (if d.c_pure then " virtual void g() = 0;" else "")
    (sm_text name `D d.c_dctor) (sm_text name `CC d.c_cctor) (sm_text name `MC d.c_mctor)
    (sm_text name `CA d.c_cassign) (sm_text name `MA d.c_massign) (dtor_text name d.c_vdtor d.c_dtor)
    (if d.c_private then " private: int p;" else "")
let rec decls (t : cty) : string list =
  match t with
  | Enum (s, u, id) ->
      [ sp "enum %s%s : %s { };" (if s then "class " else "") (enum_name s u id) (arith_name u) ]
  | Ptr u | LRef u | RRef u | Arr (u, _) | Cv (_, _, u) -> decls u
  | Fn (r, args, _, _, _, _, _) -> List.concat_map decls (r :: args)
  | MemPtr (d, u) -> class_def "struct" "C" d :: decls u
  | Class d -> [ class_def "struct" "C" d ]
  | Union d -> [ class_def "union" "U" d ]
  | _ -> []

let prelude () =
  let b = Buffer.create 4096 in
  let add s = Buffer.add_string b s; Buffer.add_char b '\n' in
  add "namespace z {";
  add "template <class T> using P = T*;";
  add "template <class T> using LR = T&;";
  add "template <class T> using RR = T&&;";
  add "template <class T, unsigned long N> using A = T[N];";
  add "template <class T> using AU = T[];";
  add "template <class T> using CQ = T const;";
  add "template <class T> using VQ = T volatile;";
  add "template <class T> using CVQ = T const volatile;";
  add "template <class T, class C> using MP = T C::*;";
  List.iter (fun c -> List.iter (fun v -> List.iter (fun q -> List.iter (fun ne -> List.iter (fun va ->
    add (sp "template <class R, class... X> using FN%s%s%d%s%s = R(X...%s)%s%s%s%s;" (b01 c) (b01 v) q
           (b01 ne) (b01 va) (if va then ", ..." else "") (if c then " const" else "")
           (if v then " volatile" else "") (match q with 0 -> "" | 1 -> " &" | _ -> " &&")
           (if ne then " noexcept" else "")))
    [false; true]) [false; true]) [0; 1; 2]) [false; true]) [false; true];
  add "template <class U> constexpr bool dtor_ok = requires { std::declval<U&>().~U(); };";
  add "template <class F, class T> constexpr bool call_ok = requires { std::declval<void (&)(T)>()(std::declval<F>()); };";
  add "template <class F, class T> constexpr bool ncall_ok = requires { { std::declval<void (&)(T) noexcept>()(std::declval<F>()) } noexcept; };";
  (* does X<T...> have a member `type` (SFINAE-friendly traits only) *)
  add "#define Z_HAS_TYPE(ns, tr) template <class... T> constexpr bool ns##_has_##tr = requires { typename ns::tr<T...>::type; };";
  (* lines tagged /*etl*/ are left out of the translation units that test std alone *)
  List.iter (fun tr -> add (sp "/*etl*/ Z_HAS_TYPE(etl, %s)" tr); add (sp "Z_HAS_TYPE(std, %s)" tr))
    [ "underlying_type"; "common_type"; "invoke_result"; "common_reference" ];
  (* identity of a SFINAE-friendly transformation: both have no member type, or both name the same type *)
  add "/*etl*/ #define Z_AGREES(tr) template <class... T> constexpr bool tr##_agrees = [] { if constexpr (etl_has_##tr<T...> != std_has_##tr<T...>) { return false; } else if constexpr (std_has_##tr<T...>) { return std::is_same_v<typename etl::tr<T...>::type, typename std::tr<T...>::type>; } else { return true; } }();";
  List.iter (fun tr -> add (sp "/*etl*/ Z_AGREES(%s)" tr)) [ "common_type"; "invoke_result"; "underlying_type" ];
  (* [dcl.init.list] copy-list-initialisation from {} : the definition of etl::is_implicit_default_constructible *)
  add "template <class T> void z_take(T);";
  add "template <class T> constexpr bool z_implicit_default = requires { z_take<T const&>({}); };";
  (* is_scoped_enum is C++23: its language definition ([dcl.enum]: no implicit conversion to the underlying type) for -std=c++20 *)
  add "template <class T> constexpr bool lang_scoped_enum = [] { if constexpr (std::is_enum_v<T>) { return !std::is_convertible_v<T, std::underlying_type_t<T>>; } else { return false; } }();";
  add "template <class T> struct z_tmpl { }; template <> struct z_tmpl<char>; struct z_incomplete;";
  add "} // namespace z";
  Buffer.contents b

(* ------------------------------------------------------------------ the zoo *)
let nz i = n_of_big (Big.of_int i)
let pc = plain_class
let cls_zoo : clsdesc list =
  let base = pc (nz 1) in
  let data = { (pc (nz 2)) with c_data = true } in
  let specials =
    List.concat_map (fun st ->
      [ { data with cid = nz 10; c_dctor = st }; { data with cid = nz 11; c_cctor = st };
        { data with cid = nz 12; c_mctor = st }; { data with cid = nz 13; c_cassign = st };
        { data with cid = nz 14; c_massign = st }; { data with cid = nz 15; c_dtor = st } ])
      [ SDefault; SDelete; SUser; SUserThrow ] in
  [ base; data;
    { (pc (nz 3)) with c_final = true };
    { (pc (nz 4)) with c_data = true; c_private = true };
    { (pc (nz 5)) with c_virt = true };
    { (pc (nz 6)) with c_pure = true };
    { (pc (nz 7)) with c_vdtor = true; c_dtor = SDefault };
    { (pc (nz 8)) with c_final = true; c_data = true; c_virt = true };
    { (pc (nz 9)) with c_private = true };
    (* move-only, copy-only, immovable, all user-provided, all throwing *)
    { data with cid = nz 20; c_cctor = SDelete; c_cassign = SDelete; c_mctor = SDefault; c_massign = SDefault };
    { data with cid = nz 21; c_cctor = SDefault; c_cassign = SDefault; c_mctor = SDelete; c_massign = SDelete };
    { data with cid = nz 22; c_cctor = SDelete; c_cassign = SDelete; c_mctor = SDelete; c_massign = SDelete };
    { data with cid = nz 23; c_dctor = SUser; c_cctor = SUser; c_mctor = SUser; c_cassign = SUser; c_massign = SUser; c_dtor = SUser };
    { data with cid = nz 24; c_dctor = SUserThrow; c_cctor = SUserThrow; c_mctor = SUserThrow; c_cassign = SUserThrow; c_massign = SUserThrow; c_dtor = SUserThrow };
    { data with cid = nz 25; c_dctor = SDelete; c_dtor = SDelete };
    { data with cid = nz 26; c_pure = true; c_vdtor = true; c_dtor = SUser };
    { data with cid = nz 27; c_mctor = SUserThrow; c_massign = SUser };
    { data with cid = nz 28; c_cctor = SUser; c_massign = SDefault };
  ] @ specials
let union_zoo : clsdesc list =
  [ pc (nz 1); { (pc (nz 2)) with c_data = true };
    { (pc (nz 3)) with c_data = true; c_dtor = SUser };
    { (pc (nz 4)) with c_data = true; c_dtor = SDelete };
    { (pc (nz 5)) with c_data = true; c_cctor = SDelete; c_dctor = SUser };
    { (pc (nz 6)) with c_final = true; c_data = true } ]
let enum_zoo : cty list =
  [ Enum (false, AUInt, nz 1); Enum (false, AUChar, nz 2); Enum (true, AInt, nz 3);
    Enum (true, AShort, nz 4); Enum (false, AULong, nz 5); Enum (true, ABool, nz 6);
    Enum (false, AInt, nz 7); Enum (true, AULLong, nz 8); Enum (false, AChar, nz 9) ]

let some_n i = Some (nz i)
let c_plain = List.nth cls_zoo 0
let c_data = List.nth cls_zoo 1
let c_abs = List.nth cls_zoo 5
let int_ = Arith AInt
let fn ?(c = false) ?(v = false) ?(q = RQnone) ?(ne = false) ?(va = false) r args = Fn (r, args, c, v, q, ne, va)
let fn_zoo : cty list =
  [ fn Void []; fn int_ [ int_ ]; fn int_ [ Arith AChar; Ptr (Arith ADouble) ];
    fn ~c:true Void []; fn ~q:RQlref Void []; fn ~q:RQrref ~ne:true int_ [ int_ ];
    fn ~va:true Void []; fn ~c:true ~v:true ~va:true int_ [ int_ ]; fn ~ne:true Void [];
    fn (Class c_plain) [ LRef (Cv (true, false, Class c_plain)) ]; fn ~v:true (Ptr Void) [ Nullptr ];
    fn (Cv (true, false, int_)) []; fn (LRef int_) [ RRef int_ ];
    fn (Ptr (fn Void [])) [ Ptr (fn int_ [ int_ ]) ];
    fn ~c:true ~q:RQlref ~ne:true (Arith ABool) [ Arith ALDouble; LRef (Arr (int_, some_n 2)) ] ]

let leaves () : cty list =
  [ Void; Nullptr ] @ List.map (fun a -> Arith a) all_arith @ enum_zoo
  @ List.map (fun d -> Class d) cls_zoo @ List.map (fun d -> Union d) union_zoo

let core_leaves () : cty list =
  [ Void; Nullptr; int_; Arith AChar; Arith ABool; Arith ADouble; Arith AULong; Arith AWChar;
    List.nth enum_zoo 0; List.nth enum_zoo 3; Class c_plain; Class c_data; Class c_abs;
    Union (List.nth union_zoo 1) ]

(* every one-step compound of t *)
let step (t : cty) : cty list =
  [ Ptr t; LRef t; RRef t; Arr (t, some_n 3); Arr (t, None); Arr (t, some_n 1);
    Cv (true, false, t); Cv (false, true, t); Cv (true, true, t);
    qual true false t; qual false true t; qual true true t;
    MemPtr (c_data, t); MemPtr (c_abs, t);
    fn t []; fn Void [ t ]; fn ~c:true ~ne:true t [ t; int_ ] ]

let dedup (l : cty list) : cty list =
  let seen = Hashtbl.create 1024 in
  List.filter (fun t -> let k = cxx t in if Hashtbl.mem seen k then false else (Hashtbl.add seen k (); true)) l

let zoo tier seed : cty list =
  let l0 = leaves () in
  let l1 = List.concat_map step (core_leaves ()) @ fn_zoo @ List.concat_map step [ List.nth fn_zoo 0; List.nth fn_zoo 1; List.nth fn_zoo 3; List.nth fn_zoo 5 ] in
  let l1 = List.filter wf (dedup l1) in
  let core1 = List.filteri (fun i _ -> tier <> "quick" || i mod 3 = 0) l1 in
  let l2 = List.filter wf (dedup (List.concat_map step core1)) in
  let l2 = if tier = "quick" then List.filteri (fun i _ -> i mod 6 = (seed mod 6)) l2 else l2 in
  let l3 =
    let st = Random.State.make [| seed; 15 |] in
    let pick = List.filter (fun _ -> Random.State.int st (if tier = "quick" then 20 else 12) = 0) l2 in
    List.filter wf (dedup (List.concat_map step pick)) in
  let l3 = List.filteri (fun i _ -> i mod (if tier = "quick" then 4 else 3) = 0) l3 in
  List.filter wf (dedup (l0 @ l1 @ l2 @ l3))

(* ------------------------------------------------------------------ traits *)
let bs b = if b then "true" else "false"
let cfg_of = function "clang" -> Clang14 | _ -> GCC12

(* unary value traits: name, std name (or ""), model, spec *)
type uval = { nm : string; stdnm : string; args : string; m : cfg -> cty -> string; s : (cty -> string) option }
let ub nm ?(stdnm = nm) ?(args = "") m s = { nm; stdnm; args; m = (fun k t -> bs (m k t)); s = Some (fun t -> bs (s t)) }
let uvals : uval list =
  let k0 f = fun (_ : cfg) t -> f t in
  [ ub "is_void" (k0 is_void_m) std_is_void;
    ub "is_null_pointer" (k0 is_null_pointer_m) std_is_null_pointer;
    ub "is_integral" is_integral_m std_is_integral;
    ub "is_floating_point" (k0 is_floating_point_m) std_is_floating_point;
    ub "is_array" (k0 is_array_m) std_is_array;
    ub "is_pointer" (k0 is_pointer_m) std_is_pointer;
    ub "is_lvalue_reference" (k0 is_lvalue_reference_m) std_is_lvalue_reference;
    ub "is_rvalue_reference" (k0 is_rvalue_reference_m) std_is_rvalue_reference;
    ub "is_member_object_pointer" is_member_object_pointer_m std_is_member_object_pointer;
    ub "is_member_function_pointer" is_member_function_pointer_m std_is_member_function_pointer;
    ub "is_enum" (k0 is_enum_m) std_is_enum;
    ub "is_union" (k0 is_union_m) std_is_union;
    ub "is_class" (k0 is_class_m) std_is_class;
    ub "is_function" (k0 is_function_m) std_is_function;
    ub "is_reference" (k0 is_reference_m) std_is_reference;
    ub "is_arithmetic" is_arithmetic_m std_is_arithmetic;
    ub "is_fundamental" is_fundamental_m std_is_fundamental;
    ub "is_object" is_object_m std_is_object;
    ub "is_scalar" is_scalar_m std_is_scalar;
    ub "is_compound" is_compound_m std_is_compound;
    ub "is_member_pointer" is_member_pointer_m std_is_member_pointer;
    ub "is_const" (k0 is_const_m) std_is_const;
    ub "is_volatile" (k0 is_volatile_m) std_is_volatile;
    ub "is_signed" (fun k t -> is_signed_mp !plat k t) (fun t -> std_is_signed_p !plat t);
    ub "is_unsigned" (fun k t -> is_unsigned_mp !plat k t) (fun t -> std_is_unsigned_p !plat t);
    ub "is_bounded_array" (k0 is_bounded_array_m) std_is_bounded_array;
    ub "is_unbounded_array" (k0 is_unbounded_array_m) std_is_unbounded_array;
    ub "is_scoped_enum" ~stdnm:"" (k0 is_scoped_enum_m) std_is_scoped_enum;
    ub "is_builtin_signed_integer" ~stdnm:"" (k0 is_builtin_signed_integer_m) std_is_standard_signed_integer;
    ub "is_builtin_unsigned_integer" ~stdnm:"" (k0 is_builtin_unsigned_integer_m) std_is_standard_unsigned_integer;
    ub "is_builtin_integer" ~stdnm:"" (k0 is_builtin_integer_m)
      (fun t -> std_is_standard_signed_integer t || std_is_standard_unsigned_integer t);
    { nm = "rank"; stdnm = "rank"; args = ""; m = (fun _ t -> str_of_n (rank_m t)); s = Some (fun t -> str_of_n (std_rank t)) };
    { nm = "extent"; stdnm = "extent"; args = ""; m = (fun _ t -> str_of_n (extent_m t O)); s = Some (fun t -> str_of_n (std_extent t O)) };
    { nm = "extent"; stdnm = "extent"; args = ", 1"; m = (fun _ t -> str_of_n (extent_m t (S O))); s = Some (fun t -> str_of_n (std_extent t (S O))) };
    { nm = "extent"; stdnm = "extent"; args = ", 2"; m = (fun _ t -> str_of_n (extent_m t (S (S O)))); s = Some (fun t -> str_of_n (std_extent t (S (S O)))) };
  ]

(* concepts that are conjunctions of modelled traits *)
let uconcepts : uval list =
  [ ub "integral" integral_c_m std_is_integral;
    ub "floating_point" (fun _ t -> floating_point_c_m t) std_is_floating_point;
    ub "signed_integral" (fun k t -> signed_integral_c_mp !plat k t) (fun t -> std_is_integral t && std_is_signed_p !plat t);
    ub "unsigned_integral" (fun k t -> unsigned_integral_c_mp !plat k t) (fun t -> std_is_integral t && not (std_is_signed_p !plat t));
    ub "referenceable" ~stdnm:"" (fun _ t -> referenceable_c_m t) (fun t -> not (std_is_void t));
    ub "builtin_integer" ~stdnm:"" (fun _ t -> is_builtin_integer_m t)
      (fun t -> std_is_standard_signed_integer t || std_is_standard_unsigned_integer t);
    ub "builtin_signed_integer" ~stdnm:"" (fun _ t -> is_builtin_signed_integer_m t) std_is_standard_signed_integer;
    ub "builtin_unsigned_integer" ~stdnm:"" (fun _ t -> is_builtin_unsigned_integer_m t) std_is_standard_unsigned_integer ]

(* unary type traits; None = no member `type` *)
type uty = { tn : string; tstd : string; tm : cfg -> cty -> cty option; ts : cty -> cty option; total : bool }
let ut tn ?(tstd = tn) m s = { tn; tstd; tm = (fun _ t -> Some (m t)); ts = (fun t -> Some (s t)); total = true }
let utys : uty list =
  [ ut "remove_const" remove_const_m std_remove_const;
    ut "remove_volatile" remove_volatile_m std_remove_volatile;
    ut "remove_cv" remove_cv_m std_remove_cv;
    ut "add_const" add_const_m std_add_const;
    ut "add_volatile" add_volatile_m std_add_volatile;
    ut "add_cv" add_cv_m std_add_cv;
    ut "remove_reference" remove_reference_m std_remove_reference;
    ut "add_lvalue_reference" add_lvalue_reference_m std_add_lvalue_reference;
    ut "add_rvalue_reference" add_rvalue_reference_m std_add_rvalue_reference;
    ut "remove_pointer" remove_pointer_m std_remove_pointer;
    ut "add_pointer" add_pointer_m std_add_pointer;
    ut "remove_extent" remove_extent_m std_remove_extent;
    ut "remove_all_extents" remove_all_extents_m std_remove_all_extents;
    ut "decay" decay_m std_decay;
    ut "remove_cvref" remove_cvref_m std_remove_cvref;
    ut "type_identity" type_identity_m (fun t -> t);
    { tn = "underlying_type"; tstd = "underlying_type"; tm = (fun _ t -> underlying_type_m t); ts = std_underlying_type; total = false };
    { tn = "make_signed"; tstd = "make_signed"; tm = make_signed_m; ts = std_make_signed; total = false };
    { tn = "make_unsigned"; tstd = "make_unsigned"; tm = make_unsigned_m; ts = std_make_unsigned; total = false };
  ]

(* traits outside the model (compiler intrinsics about class semantics, or library code whose
   result depends on overload resolution): etl is compared with std directly *)
let prop_unary : string list =
  [ "is_trivially_copyable"; "is_trivial"; "is_standard_layout"; "is_empty"; "is_polymorphic";
    "is_abstract"; "is_final"; "is_aggregate"; "has_virtual_destructor";
    "has_unique_object_representations";
    "is_default_constructible"; "is_copy_constructible"; "is_move_constructible";
    "is_copy_assignable"; "is_move_assignable"; "is_destructible";
    "is_trivially_default_constructible"; "is_trivially_copy_constructible";
    "is_trivially_move_constructible"; "is_trivially_copy_assignable";
    "is_trivially_move_assignable"; "is_trivially_destructible";
    "is_nothrow_default_constructible"; "is_nothrow_copy_constructible";
    "is_nothrow_move_constructible"; "is_nothrow_copy_assignable"; "is_nothrow_move_assignable";
    "is_nothrow_destructible"; "is_swappable"; "is_nothrow_swappable" ]
let prop_concepts_unary : string list =
  [ "destructible"; "default_initializable"; "move_constructible"; "copy_constructible";
    "movable"; "copyable"; "semiregular"; "regular"; "equality_comparable"; "swappable" ]
let prop_binary : string list =
  [ "is_convertible"; "is_nothrow_convertible"; "is_assignable"; "is_nothrow_assignable";
    "is_trivially_assignable"; "is_constructible"; "is_nothrow_constructible";
    "is_trivially_constructible"; "is_base_of"; "is_swappable_with"; "is_nothrow_swappable_with" ]
let prop_concepts_binary : string list =
  [ "convertible_to"; "assignable_from"; "constructible_from"; "derived_from"; "common_with";
    "common_reference_with"; "invocable"; "regular_invocable"; "predicate" ]

let lval_s0 = function LB b -> if b then "true" else "false" | LI z -> str_of_z z | LF (m, e) -> str_of_z m ^ "*2^" ^ str_of_z e | LInf -> "inf" | LNaN _ -> "nan"
(* ------------------------------------------------------------------ emission *)
let out = Buffer.create (1 lsl 20)
let line parts = Buffer.add_string out (String.concat "\t" parts); Buffer.add_char out '\n'
let obl leg trait key cond = line [ "O"; leg; trait; key; cond ]

let is_complete_object (t : cty) =
  (* sizeof/alignof applicable *)
  std_is_object t && not (std_is_unbounded_array t)

let emit tier cfgs seed =
  (* `<compiler>-uchar`: the same compiler with -funsigned-char; only the obligations that mention plain char *)
  let nc = String.length cfgs in
  let uchar = nc > 6 && String.sub cfgs (nc - 6) 6 = "-uchar" in
  let cfgs = if uchar then String.sub cfgs 0 (nc - 6) else cfgs in
  if uchar then plat := unsigned_char_abi;
  let sel t = (not uchar) || mentions_char t in
  let k = cfg_of cfgs in
  let types = zoo tier seed in
  (* prelude + declarations + aliases *)
  List.iter (fun l -> line [ "H"; l ]) (String.split_on_char '\n' (prelude ()));
  line [ "H"; "namespace z {" ];
  let seen = Hashtbl.create 256 in
  List.iter (fun t -> List.iter (fun d ->
      if not (Hashtbl.mem seen d) then (Hashtbl.add seen d (); line [ "H"; d ])) (decls t)) types;
  line [ "H"; "} // namespace z" ];
  let idx = Hashtbl.create 1024 in
  List.iteri (fun i t -> Hashtbl.replace idx (cxx t) i; line [ "H"; sp "using T%d = %s;" i (cxx t) ]) types;
  let tref t = sp "T%d" (Hashtbl.find idx (cxx t)) in
  (* ---- unary value traits *)
  List.iter (fun t ->
    let key = cxx t in
    let r = tref t in
    List.iter (fun u ->
      let mv = u.m k t in
      let trait = u.nm ^ u.args in
      obl "corr" trait key (sp "etl::%s_v<%s%s> == %s && etl::%s<%s%s>::value == %s" u.nm r u.args mv u.nm r u.args mv);
      (match u.s with
       | Some s ->
           let sv = s t in
           if u.stdnm <> "" then obl "specval" trait key (sp "std::%s_v<%s%s> == %s" u.stdnm r u.args sv);
           if u.nm = "is_scoped_enum" then obl "specval" trait key (sp "z::lang_scoped_enum<%s> == %s" r sv);
           if sv <> mv then line [ "M"; trait; key; mv; sv ]
       | None -> ())) uvals;
    List.iter (fun u ->
      let mv = u.m k t in
      obl "corr" ("concept " ^ u.nm) key (sp "etl::%s<%s> == %s" u.nm r mv);
      (match u.s with
       | Some s ->
           let sv = s t in
           if u.stdnm <> "" then obl "specval" ("concept " ^ u.nm) key (sp "std::%s<%s> == %s" u.stdnm r sv);
           if sv <> mv then line [ "M"; "concept " ^ u.nm; key; mv; sv ]
       | None -> ())) uconcepts;
    (* ---- unary type traits *)
    List.iter (fun u ->
      let mt = u.tm k t in
      let st = u.ts t in
      (match mt with
       | Some x ->
           obl "corr" u.tn key (sp "std::is_same_v<etl::%s_t<%s>, %s> && std::is_same_v<typename etl::%s<%s>::type, %s>" u.tn r (cxx x) u.tn r (cxx x))
       | None ->
           if u.tn = "underlying_type" then obl "corr" u.tn key (sp "!z::etl_has_underlying_type<%s>" r));
      (match st with
       | Some x -> obl "specval" u.tn key (sp "std::is_same_v<std::%s_t<%s>, %s>" u.tstd r (cxx x))
       | None ->
           if u.tn = "underlying_type" then obl "specval" u.tn key (sp "!z::std_has_underlying_type<%s>" r));
      (match mt, st with
       | Some a, Some b when not (cty_eqb a b) -> line [ "M"; u.tn; key; cxx a; cxx b ]
       | Some a, None -> line [ "M"; u.tn; key; cxx a; "-" ]
       | None, Some b -> line [ "M"; u.tn; key; "-"; cxx b ]
       | _ -> ())) utys;
    (* ---- property-only unary traits and concepts *)
    List.iter (fun tr ->
      obl "prop" tr key (sp "etl::%s_v<%s> == std::%s_v<%s> && etl::%s<%s>::value == std::%s_v<%s>" tr r tr r tr r tr r))
      prop_unary;
    if is_complete_object t then
      obl "prop" "alignment_of" key (sp "etl::alignment_of_v<%s> == std::alignment_of_v<%s> && etl::alignment_of<%s>::value == alignof(%s)" r r r r);
    List.iter (fun c -> obl "prop" ("concept " ^ c) key (sp "etl::%s<%s> == std::%s<%s>" c r c r)) prop_concepts_unary;
    (* ---- composition traits: the library-computed argument types (ModelComp.v) *)
    let ca = cxx (copy_ctor_arg_m t) and ma = cxx (move_ctor_arg_m t) and tg = cxx (assign_target_m t)
    and cas = cxx (copy_assign_arg_m t) and mas = cxx (move_assign_arg_m t) in
    List.iter (fun fam ->
        let pre = if fam = "" then "is_" else "is_" ^ fam ^ "_" in
        if fam <> "trivially" then
          obl "corr" (pre ^ "copy_constructible (composition)") key (sp "etl::%scopy_constructible_v<%s> == etl::%sconstructible_v<%s, %s>" pre r pre r ca);
        obl "corr" (pre ^ "move_constructible (composition)") key (sp "etl::%smove_constructible_v<%s> == etl::%sconstructible_v<%s, %s>" pre r pre r ma);
        obl "corr" (pre ^ "default_constructible (composition)") key (sp "etl::%sdefault_constructible_v<%s> == etl::%sconstructible_v<%s>" pre r pre r);
        obl "corr" (pre ^ "copy_assignable (composition)") key (sp "etl::%scopy_assignable_v<%s> == etl::%sassignable_v<%s, %s>" pre r pre tg cas);
        obl "corr" (pre ^ "move_assignable (composition)") key (sp "etl::%smove_assignable_v<%s> == etl::%sassignable_v<%s, %s>" pre r pre tg mas);
        (* the standard's wording against std *)
        let rf = referenceable t in
        let sc = cxx (std_const_lref t) and sr = cxx (std_rref t) and sl = cxx (std_lref t) in
        obl "specval" (pre ^ "copy_constructible (composition)") key (sp "std::%scopy_constructible_v<%s> == (%s && std::%sconstructible_v<%s, %s>)" pre r (bs rf) pre r sc);
        obl "specval" (pre ^ "move_constructible (composition)") key (sp "std::%smove_constructible_v<%s> == (%s && std::%sconstructible_v<%s, %s>)" pre r (bs rf) pre r sr);
        obl "specval" (pre ^ "copy_assignable (composition)") key (sp "std::%scopy_assignable_v<%s> == (%s && std::%sassignable_v<%s, %s>)" pre r (bs rf) pre sl sc);
        obl "specval" (pre ^ "move_assignable (composition)") key (sp "std::%smove_assignable_v<%s> == (%s && std::%sassignable_v<%s, %s>)" pre r (bs rf) pre sl sr))
      [ ""; "nothrow"; "trivially" ];
    let dexpr = function DFalse -> "false" | DTrue -> "true" | DAsk u -> sp "z::dtor_ok<%s>" (cxx u) in
    obl "corr" "is_destructible (library)" key (sp "etl::is_destructible_v<%s> == %s" r (dexpr (is_destructible_q k t)));
    obl "specval" "is_destructible (library)" key (sp "std::is_destructible_v<%s> == %s" r (dexpr (std_is_destructible_q t)));
    (* ---- the hypotheses of C15_composition_traits / C15_destructible about the compilers' intrinsics *)
    if not (referenceable t) then
      obl "prop" "hypothesis: intrinsics are false on non-referenceable types" key
        (* (through the trait templates: clang rejects a qualified function type named directly in an intrinsic) *)
        (sp "!etl::is_constructible_v<%s> && !etl::is_constructible_v<%s, %s> && !etl::is_constructible_v<%s, int> && !etl::is_assignable_v<%s, %s> && !etl::is_assignable_v<%s, int> && !etl::is_trivially_constructible_v<%s> && !etl::is_trivially_assignable_v<%s, %s> && !etl::is_nothrow_constructible_v<%s> && !etl::is_nothrow_assignable_v<%s, %s> && !std::is_constructible_v<%s, %s> && !std::is_assignable_v<%s, %s>" r r r r r r r r r r r r r r r r r);
    if std_is_scalar t then
      obl "prop" "hypothesis: pseudo-destructor call on a scalar is well-formed" key (sp "z::dtor_ok<%s>" r);
    (* the recorded findings, pinned to their exact wrong behaviour (a finding suppresses the comparison with
       std only; any OTHER behaviour of these facilities still fails here) *)
    obl "corr" "recorded: is_trivially_copy_constructible" key
      (sp "etl::is_trivially_copy_constructible_v<%s> == std::is_trivially_default_constructible_v<%s>" r r);
    obl "prop" "concept boolean_testable" key (sp "etl::boolean_testable<%s> == std::__detail::__boolean_testable<%s>" r r);
    obl "prop" "common_type<T>" key (sp "z::common_type_agrees<%s>" r);
    obl "prop" "invoke_result<F>" key (sp "z::invoke_result_agrees<%s> && etl::is_invocable_v<%s> == std::is_invocable_v<%s> && etl::invocable<%s> == std::invocable<%s>" r r r r r);
    if is_complete_object t && not (std_is_array t) then
      obl "prop" "is_implicit_default_constructible" key
        (sp "etl::is_implicit_default_constructible_v<%s> == (std::is_default_constructible_v<%s> && z::z_implicit_default<%s>)" r r r))
    (List.filter sel types);
  (* ---- binary traits: ordered pairs over a core set *)
  let pair_core =
    let want = [ Void; Nullptr; int_; Arith AChar; Arith ABool; Arith ADouble; Arith AULong; Arith AUInt;
                 Arith ALLong; Arith AShort; Arith AFloat; Arith AChar32; Arith AWChar; Arith AUChar;
                 Cv (true, false, int_); Ptr int_; Ptr (Cv (true, false, int_)); Ptr Void; LRef int_;
                 LRef (Cv (true, false, int_)); RRef int_; Arr (int_, some_n 3); Arr (int_, None);
                 fn Void []; Ptr (fn Void []); fn int_ [ int_ ]; Ptr (fn int_ [ int_ ]);
                 List.nth enum_zoo 0; List.nth enum_zoo 3; Class c_plain; Class c_data; Class c_abs;
                 LRef (Class c_data); Cv (true, false, Class c_data);
                 Class (List.nth cls_zoo 9); Class (List.nth cls_zoo 12); Class (List.nth cls_zoo 13);
                 Union (List.nth union_zoo 1); MemPtr (c_data, int_); MemPtr (c_data, fn Void []);
                 Arith ALDouble; Arith AChar8; Arith AChar16; Arith ASChar; Arith AUShort; Arith ALong;
                 Arith AULLong ] in
    (* quick tier: about half of the core set, rotating with the seed (all ordered pairs of the rest) *)
    let want = if tier = "quick" then List.filteri (fun i _ -> i < 6 || i mod 2 = seed mod 2) want else want in
    List.filter (fun t -> Hashtbl.mem idx (cxx t)) want in
  let pairs = List.filter (fun (a, b) -> sel a || sel b) (List.concat_map (fun a -> List.map (fun b -> (a, b)) pair_core) pair_core) in
  List.iter (fun (a, b) ->
    let key = cxx a ^ " ; " ^ cxx b in
    let ra = tref a and rb = tref b in
    (* is_same / same_as *)
    let mv = bs (is_same_m a b) in
    obl "corr" "is_same" key (sp "etl::is_same_v<%s, %s> == %s && etl::is_same<%s, %s>::value == %s" ra rb mv ra rb mv);
    obl "specval" "is_same" key (sp "std::is_same_v<%s, %s> == %s" ra rb (bs (cxx a = cxx b)));
    obl "corr" "concept same_as" key (sp "etl::same_as<%s, %s> == %s" ra rb (bs (same_as_m a b)));
    obl "specval" "concept same_as" key (sp "std::same_as<%s, %s> == %s" ra rb (bs (cxx a = cxx b)));
    (* conditional *)
    obl "corr" "conditional" key (sp "std::is_same_v<etl::conditional_t<true, %s, %s>, %s> && std::is_same_v<etl::conditional_t<false, %s, %s>, %s>" ra rb (cxx (conditional_m true a b)) ra rb (cxx (conditional_m false a b)));
    (* common_type *)
    let mt = common_type_m a b and st = std_common_type a b in
    (match mt with
     | Some x -> obl "corr" "common_type" key (sp "std::is_same_v<etl::common_type_t<%s, %s>, %s> && std::is_same_v<typename etl::common_type<%s, %s>::type, %s>" ra rb (cxx x) ra rb (cxx x))
     | None -> ());
    (match st with
     | Some x -> obl "specval" "common_type" key (sp "std::is_same_v<std::common_type_t<%s, %s>, %s>" ra rb (cxx x))
     | None -> ());
    (match mt, st with
     | Some x, Some y when not (cty_eqb x y) -> line [ "M"; "common_type"; key; cxx x; cxx y ]
     | Some x, None -> line [ "M"; "common_type"; key; cxx x; "-" ]
     | None, Some y -> line [ "M"; "common_type"; key; "-"; cxx y ]
     | _ -> ());
    (* outside the model: existence and identity of common_type, and the relation traits *)
    obl "prop" "common_type" key (sp "z::common_type_agrees<%s, %s>" ra rb);
    List.iter (fun tr ->
        obl "prop" tr key (sp "etl::%s_v<%s, %s> == std::%s_v<%s, %s> && etl::%s<%s, %s>::value == std::%s_v<%s, %s>" tr ra rb tr ra rb tr ra rb tr ra rb))
      prop_binary;
    obl "prop" "is_invocable" key (sp "etl::is_invocable_v<%s, %s> == std::is_invocable_v<%s, %s>" ra rb ra rb);
    obl "prop" "is_invocable_r" key (sp "etl::is_invocable_r_v<%s, %s> == std::is_invocable_r_v<%s, %s>" ra rb ra rb);
    obl "prop" "invoke_result" key (sp "z::invoke_result_agrees<%s, %s>" ra rb);
    List.iter (fun c -> obl "prop" ("concept " ^ c) key (sp "etl::%s<%s, %s> == std::%s<%s, %s>" c ra rb c ra rb)) prop_concepts_binary;
    if std_is_void b then
      obl "prop" "hypothesis: void(To) with To = void cannot be called with an argument" key (sp "!z::call_ok<%s, %s> && !z::ncall_ok<%s, %s>" ra rb ra rb);
    let cexpr = function CFalse -> "false" | CTrue -> "true" | CAsk -> sp "z::call_ok<%s, %s>" ra rb in
    obl "corr" "is_convertible (library)" key (sp "etl::is_convertible_v<%s, %s> == %s" ra rb (cexpr (is_convertible_q a b)));
    obl "specval" "is_convertible (library)" key (sp "std::is_convertible_v<%s, %s> == %s" ra rb (cexpr (std_is_convertible_q a b)));
    (* is_nothrow_convertible has the same shape with "well-formed and noexcept" as the question *)
    let ncexpr = function CFalse -> "false" | CTrue -> "true" | CAsk -> sp "z::ncall_ok<%s, %s>" ra rb in
    obl "corr" "is_nothrow_convertible (library)" key (sp "etl::is_nothrow_convertible_v<%s, %s> == %s" ra rb (ncexpr (is_convertible_q a b)));
    obl "specval" "is_nothrow_convertible (library)" key (sp "std::is_nothrow_convertible_v<%s, %s> == %s" ra rb (ncexpr (std_is_convertible_q a b)));
    obl "corr" "recorded: common_reference_with" key
      (sp "etl::common_reference_with<%s, %s> == (std::is_same_v<%s, %s> && std::convertible_to<%s, %s>)" ra rb ra rb ra ra);
    (* common_reference_t<T const&, U const&> exists only for identical operands, and must equal
       common_type_t<T, U>&: both operands are references to the same unqualified object type *)
    obl "corr" "recorded: common_with" key
      (sp "etl::common_with<%s, %s> == (std::is_reference_v<%s> && std::is_reference_v<%s> && std::is_same_v<std::remove_reference_t<%s>, std::remove_reference_t<%s>> && std::is_same_v<std::remove_reference_t<%s>, std::decay_t<%s>> && std::common_with<%s, %s>)" ra rb ra rb ra rb ra ra ra rb);
    obl "prop" "concept weakly_equality_comparable_with" key (sp "etl::weakly_equality_comparable_with<%s, %s> == std::__detail::__weakly_eq_cmp_with<%s, %s>" ra rb ra rb))
    pairs;
  (* ---- numeric_limits VALUES at compile time, integer types x cv: etl == extracted model (for the configuration's
          platform), std == extracted spec, etl == std, and the relations between the members that hold on every
          platform (lowest() <= min() <= max(), is_signed == (lowest() < 0) == is_signed_v<T>); the run-time legs
          print the same members, this repeats them under every compile-time configuration (-funsigned-char) *)
  let zlit z =
    let s = str_of_z z in
    if s = "-9223372036854775808" then "(-9223372036854775807LL - 1)"
    else if Big.compare (big_of_z z) (Big.of_string "9223372036854775807") > 0 then s ^ "ULL" else s ^ "LL" in
  let nl_members = [ "min", Lmin, true; "max", Lmax, true; "lowest", Llowest, true; "digits", Ldigits, false;
                     "digits10", Ldigits10, false; "max_digits10", Lmax_digits10, false; "is_signed", Lis_signed, false;
                     "is_modulo", Lis_modulo, false; "is_integer", Lis_integer, false; "is_exact", Lis_exact, false;
                     "is_bounded", Lis_bounded, false; "radix", Lradix, false; "is_specialized", Lis_specialized, false ] in
  List.iter (fun a ->
      if not (is_float_a a) then
        List.iter (fun cvs ->
            let t = arith_name a ^ cvs in
            let one ns v (nm, _, isfn) =
              let e = sp "%s::numeric_limits<%s>::%s%s" ns t nm (if isfn then "()" else "") in
              match v with
              | LB b -> Some (sp "%s == %s" e (bs b))
              | LI z -> Some (sp "static_cast<__int128>(%s) == static_cast<__int128>(%s)" e (zlit z))
              | _ -> None in
            let conj l = String.concat " && " (List.filter_map (fun x -> x) l) in
            obl "corr" "numeric_limits values (compile time)" t
              (conj (List.map (fun ((_, m, _) as d) -> one "etl" (limits_mp !plat a m) d) nl_members));
            obl "specval" "numeric_limits values (compile time)" t
              (conj (List.map (fun ((_, m, _) as d) -> match limits_spec_p !plat a m with Some v -> one "std" v d | None -> None) nl_members));
            List.iter (fun (nm, m, _) ->
                match limits_spec_p !plat a m with
                | Some v when v <> limits_mp !plat a m -> line [ "M"; "numeric_limits " ^ nm; t; lval_s0 (limits_mp !plat a m); lval_s0 v ]
                | _ -> ()) nl_members;
            let e nm = sp "etl::numeric_limits<%s>::%s" t nm and s_ nm = sp "std::numeric_limits<%s>::%s" t nm in
            obl "prop" "numeric_limits values (compile time)" t
              (sp "%s == %s && %s == %s && %s == %s && %s == %s && %s == %s && %s == %s && %s == %s && %s <= %s && %s <= %s && %s == (%s < 0) && %s == etl::is_signed_v<%s> && %s == std::is_signed_v<%s> && %s == (static_cast<%s>(-1) < static_cast<%s>(0)) && etl::is_unsigned_v<%s> == std::is_unsigned_v<%s> && etl::signed_integral<%s> == std::signed_integral<%s> && etl::unsigned_integral<%s> == std::unsigned_integral<%s>"
                 (e "min()") (s_ "min()") (e "max()") (s_ "max()") (e "lowest()") (s_ "lowest()") (e "digits") (s_ "digits")
                 (e "digits10") (s_ "digits10") (e "is_signed") (s_ "is_signed") (e "is_modulo") (s_ "is_modulo")
                 (e "lowest()") (e "min()") (e "min()") (e "max()") (e "is_signed") (e "lowest()")
                 (e "is_signed") t (e "is_signed") t (e "is_signed") (arith_name a) (arith_name a) t t t t t t))
          [ ""; " const"; " volatile"; " const volatile" ])
    (if uchar then [ AChar; ASChar; AUChar; AWChar; AChar8; AChar16; AChar32 ] else all_arith);
  (* make_signed / make_unsigned of the character types do not depend on the signedness of plain char *)
  List.iter (fun (x, ms, mu) ->
      obl "prop" "make_signed / make_unsigned (character types)" x
        (sp "std::is_same_v<etl::make_signed_t<%s>, %s> && std::is_same_v<etl::make_unsigned_t<%s>, %s> && std::is_same_v<std::make_signed_t<%s>, %s> && std::is_same_v<std::make_unsigned_t<%s>, %s> && std::is_same_v<etl::make_signed_t<%s const>, %s const> && std::is_same_v<etl::make_unsigned_t<%s volatile>, %s volatile>" x ms x mu x ms x mu x ms x mu))
    [ "char", "signed char", "unsigned char"; "signed char", "signed char", "unsigned char"; "unsigned char", "signed char", "unsigned char";
      "wchar_t", "int", "unsigned int"; "char8_t", "signed char", "unsigned char"; "char16_t", "short", "unsigned short"; "char32_t", "int", "unsigned int" ];
  if uchar then begin print_string (Buffer.contents out); exit 0 end;
  (* ---- the variadic helpers (ModelVariadic.v): packs of 1-5 elements in ALL orders (peak at the front, in the
          middle, at the end; duplicates) *)
  let uniq_perms l =
    let seen = Hashtbl.create 64 in
    List.filter (fun q -> let key = String.concat "," (List.map cxx q) in
                  if Hashtbl.mem seen key then false else (Hashtbl.add seen key (); true)) (perms l) in
  let arr a n = Arr (Arith a, some_n n) in
  let tc = Arith AChar and ts = Arith AShort and ti = Arith AInt and td = Arith ADouble and tld = Arith ALDouble in
  let c3 = arr AChar 3 and c40 = arr AChar 40 and i5 = arr AInt 5 and d3 = arr ADouble 3 and s9 = arr AShort 9
  and ld2 = arr ALDouble 2 and pv = Ptr Void and mpf = MemPtr (c_data, fn Void []) and tc32 = Arith AChar32 in
  (* the layout table of ModelVariadic.v against the compilers *)
  List.iter (fun t ->
      match sizeof_t t, alignof_t t with
      | Some s, Some a -> obl "specval" "layout table (sizeof / alignof)" (cxx t) (sp "sizeof(%s) == %s && alignof(%s) == %s" (cxx t) (str_of_z s) (cxx t) (str_of_z a))
      | _ -> ())
    (List.map (fun a -> Arith a) all_arith @ enum_zoo
     @ [ Nullptr; pv; Ptr (fn Void []); mpf; MemPtr (c_data, ti); c3; c40; i5; d3; s9; ld2; Arr (c3, some_n 2); Cv (true, false, td); Arr (Cv (true, true, ts), some_n 4) ]);
  let au_lists =
    [ [ tc ]; [ tld ]; [ c40 ]; [ ti; tc ]; [ c40; td ]; [ tld; c3 ];
      [ ti; tc; td ]; [ ts; tc; tld ]; [ c3; c40; tc ]; [ td; td; tc ]; [ tc; tc; tld ]; [ i5; d3; s9 ]; [ pv; c3; ld2 ]; [ mpf; ti; c40 ];
      [ tc; ts; ti; td ]; [ ti; tc; tld; ts ]; [ c40; i5; d3; tc ]; [ td; tc; td; tc ]; [ s9; tld; c3; pv ];
      [ tc; ts; ti; td; tld ]; [ c3; i5; c40; d3; s9 ]; [ ti; ti; tld; tc32; tld ] ] in
  let lens_all = [ 0; 1; 6; 17; 20; 41 ] in
  List.iter (fun l ->
      let n = List.length l in
      List.iteri (fun j q ->
          if n < 5 || tier <> "quick" || j mod 3 = seed mod 3 then begin
            let lens = if n <= 3 then lens_all
                       else if n = 4 then [ 0; List.nth lens_all (1 + (j + seed) mod 5); List.nth lens_all (1 + (j + seed + 2) mod 5) ]
                       else [ 0; List.nth lens_all (1 + (j + seed) mod 5) ] in
            List.iter (fun len ->
                let args = String.concat ", " (string_of_int len :: List.map cxx q) in
                let key = sp "<%s>" args in
                let eu = sp "etl::aligned_union<%s>" args and su = sp "std::aligned_union<%s>" args in
                let et = sp "etl::aligned_union_t<%s>" args and st = sp "std::aligned_union_t<%s>" args in
                (match aligned_union_m (z_of_int len) q with
                 | Some ((al, b), sz) ->
                     obl "corr" "aligned_union" key
                       (sp "%s::alignment_value == %s && sizeof(%s::storage) == %s && sizeof(%s) == %s && alignof(%s) == %s && std::is_same_v<decltype(%s::alignment_value), etl::size_t const>"
                          eu (str_of_z al) et (str_of_z b) et (str_of_z sz) et (str_of_z al) eu)
                 | None -> ());
                (match aligned_union_spec (z_of_int len) q with
                 | Some (al, sz) ->
                     obl "specval" "aligned_union" key
                       (sp "%s::alignment_value == %s && sizeof(%s) == %s && alignof(%s) == %s" su (str_of_z al) st (str_of_z sz) st (str_of_z al))
                 | None -> ());
                (match aligned_union_m (z_of_int len) q, aligned_union_spec (z_of_int len) q with
                 | Some ((al, _), sz), Some (al', sz') when al = al' && sz = sz' -> ()
                 | None, None -> ()
                 | _ -> line [ "M"; "aligned_union"; key; "model"; "spec" ]);
                obl "prop" "aligned_union" key
                  (sp "%s::alignment_value == %s::alignment_value && sizeof(%s) == sizeof(%s) && alignof(%s) == alignof(%s) && std::is_trivial_v<%s> && std::is_standard_layout_v<%s>" eu su et st et st et et))
              lens
          end) (uniq_perms l)) au_lists;
  (* class types (layout outside the model): against std only, all orders *)
  line [ "H"; "namespace zl { struct alignas(16) W { char c[32]; }; struct S3 { char c[3]; }; struct VD { virtual ~VD(); double d; }; struct alignas(32) W32 { char c; }; struct E { }; template <int I, int V> struct BC { static constexpr int value = V; }; }" ];
  List.iter (fun l ->
      List.iteri (fun j q ->
          List.iter (fun len ->
              let args = String.concat ", " (string_of_int len :: q) in
              obl "prop" "aligned_union (class types)" (sp "<%s>" args)
                (sp "etl::aligned_union<%s>::alignment_value == std::aligned_union<%s>::alignment_value && sizeof(etl::aligned_union_t<%s>) == sizeof(std::aligned_union_t<%s>) && alignof(etl::aligned_union_t<%s>) == alignof(std::aligned_union_t<%s>)" args args args args args args))
            [ 0; List.nth lens_all (1 + (j + seed) mod 5) ]) (perms l))
    [ [ "int"; "char"; "zl::W" ]; [ "char"; "short"; "zl::W" ]; [ "zl::S3"; "zl::VD"; "zl::E" ]; [ "zl::W32"; "zl::E"; "zl::W"; "double" ];
      [ "zl::S3"; "char[40]"; "zl::E"; "zl::VD" ] ];
  (* aligned_storage<Len, Align>: every Len x every power-of-two Align against std (size, alignment) *)
  List.iter (fun len ->
      obl "prop" "aligned_storage<Len, Align>" (string_of_int len)
        (String.concat " && " (List.map (fun al -> sp "sizeof(etl::aligned_storage_t<%d, %d>) == sizeof(std::aligned_storage_t<%d, %d>) && alignof(etl::aligned_storage_t<%d, %d>) == %d" len al len al len al al) [ 1; 2; 4; 8; 16; 32 ])))
    [ 1; 2; 3; 5; 8; 13; 16; 17; 31; 40; 64; 65 ];
  (* conjunction / disjunction: every list of 0-5 operands; operand i is zl::BC<i, v> (v = 0: false, otherwise a
     non-zero int), so the base class identifies WHICH operand was selected; the operands after the selected one
     are also replaced by a class without `value` (short-circuit: they must not be instantiated) *)
  let truthy = [| 1; 2; -1; 7; 3 |] in
  let rec bool_lists n = if n = 0 then [ [] ] else List.concat_map (fun l -> [ false :: l; true :: l ]) (bool_lists (n - 1)) in
  List.iter (fun n ->
      List.iter (fun bsl ->
          let opnd i b = sp "zl::BC<%d, %d>" i (if b then truthy.(i) else 0) in
          let ops = List.mapi opnd bsl in
          let key = sp "<%s>" (String.concat ", " (List.map bs bsl)) in
          List.iter (fun (nm, model, spec, value, dflt) ->
              let mk ns sel_ =
                let full = sp "%s::%s<%s>" ns nm (String.concat ", " ops) in
                let base e = match sel_ with
                  | None -> sp "std::is_base_of_v<%s::%s_type, %s>" ns dflt e
                  | Some i -> String.concat " && " (List.mapi (fun j o -> sp "%sstd::is_base_of_v<%s, %s>" (if j = i then "" else "!") o e) ops) in
                let sc = match sel_ with
                  | Some i when i < n - 1 ->
                      let e = sp "%s::%s<%s>" ns nm (String.concat ", " (List.mapi (fun j o -> if j > i then "z::novalue" else o) ops)) in
                      sp " && std::is_base_of_v<%s, %s> && static_cast<bool>(%s::value) == %s" (List.nth ops i) e e (bs value)
                  | _ -> "" in
                sp "%s::%s_v<%s> == %s && static_cast<bool>(%s::value) == %s && %s%s" ns nm (String.concat ", " ops) (bs value) full (bs value) (base full) sc in
              let o2i = function Some i -> Some (int_of_nat i) | None -> None in
              obl "corr" nm key (mk "etl" (o2i model));
              obl "specval" nm key (mk "std" (o2i spec));
              if model <> spec then line [ "M"; nm; key; "model"; "spec" ])
            [ "conjunction", conjunction_m bsl, conjunction_spec bsl, conjunction_value_m bsl, "true";
              "disjunction", disjunction_m bsl, disjunction_spec bsl, disjunction_value_m bsl, "false" ])
        (bool_lists n)) [ 0; 1; 2; 3; 4; 5 ];
  (* n-ary common_type: lists of 3 and 4 types in all orders against the left fold of ModelVariadic.v / std *)
  let ar a = Arith a in
  List.iter (fun l ->
      List.iter (fun q ->
          let args = String.concat ", " (List.map cxx q) in
          let key = sp "<%s>" args in
          (match common_type_n_m q with
           | Some x -> obl "corr" "common_type (n-ary)" key (sp "std::is_same_v<etl::common_type_t<%s>, %s> && std::is_same_v<typename etl::common_type<%s>::type, %s>" args (cxx x) args (cxx x))
           | None -> ());
          (match std_common_type_n q with
           | Some x -> obl "specval" "common_type (n-ary)" key (sp "std::is_same_v<std::common_type_t<%s>, %s>" args (cxx x))
           | None -> ());
          (match common_type_n_m q, std_common_type_n q with
           | Some x, Some y when cty_eqb x y -> ()
           | None, None -> ()
           | _ -> line [ "M"; "common_type (n-ary)"; key; "model"; "spec" ]);
          obl "prop" "common_type (n-ary)" key (sp "z::common_type_agrees<%s>" args))
        (uniq_perms l))
    [ [ ar AChar; ar AULong; ar AFloat ]; [ ar AInt; ar AUInt; ar ALong ]; [ ar AShort; ar AUChar; ar ABool ]; [ ar AChar32; ar AInt; ar ALLong ];
      [ ar ALDouble; ar AFloat; ar AULLong ]; [ ar AWChar; ar AChar16; ar AShort ]; [ LRef (Cv (true, false, ar AChar)); ar AULong; RRef (ar AFloat) ];
      [ Ptr int_; Ptr int_; Cv (true, false, Ptr int_) ]; [ ar AUInt; ar ALong; ar AInt ];
      [ ar ABool; ar AChar; ar AUShort; ar ADouble ]; [ ar AInt; ar ALong; ar AULLong; ar AFloat ]; [ ar AChar8; ar AChar16; ar AChar32; ar AWChar ];
      [ ar AUInt; ar AInt; ar AUInt; ar ALLong ]; [ ar AUShort ]; [ ar AFloat; Cv (false, true, ar AFloat) ] ];
  (* ---- smallest_size_t *)
  List.iter (fun s ->
    let n = z_of_big (Big.of_string s) in
    let a = smallest_size_t_m n in
    obl "corr" "smallest_size_t" s (sp "std::is_same_v<etl::smallest_size_t<%sULL>, %s>" s (arith_name a));
    (* spec: the result holds N *)
    if not (holds a n) then line [ "M"; "smallest_size_t"; s; arith_name a; "cannot hold N" ])
    [ "0"; "1"; "254"; "255"; "256"; "65534"; "65535"; "65536"; "4294967294"; "4294967295"; "4294967296";
      "18446744073709551614"; "18446744073709551615" ];
  (* ---- cstdint / cstddef typedefs *)
  List.iter (fun (e, s) -> obl "prop" "typedef" e (sp "std::is_same_v<etl::%s, %s>" e s))
    [ "int8_t", "std::int8_t"; "int16_t", "std::int16_t"; "int32_t", "std::int32_t"; "int64_t", "std::int64_t";
      "uint8_t", "std::uint8_t"; "uint16_t", "std::uint16_t"; "uint32_t", "std::uint32_t"; "uint64_t", "std::uint64_t";
      "intmax_t", "std::intmax_t"; "uintmax_t", "std::uintmax_t"; "intptr_t", "std::intptr_t"; "uintptr_t", "std::uintptr_t";
      "size_t", "std::size_t"; "ptrdiff_t", "std::ptrdiff_t"; "nullptr_t", "std::nullptr_t";
      "int_least8_t", "std::int_least8_t"; "int_least16_t", "std::int_least16_t"; "int_least32_t", "std::int_least32_t";
      "int_least64_t", "std::int_least64_t"; "uint_least8_t", "std::uint_least8_t"; "uint_least16_t", "std::uint_least16_t";
      "uint_least32_t", "std::uint_least32_t"; "uint_least64_t", "std::uint_least64_t" ];
  (* the fast types are only required to be at least as wide, and signed/unsigned *)
  List.iter (fun (e, bits, sg) ->
    obl "prop" "typedef" e (sp "sizeof(etl::%s) * 8 >= %d && std::is_integral_v<etl::%s> && std::is_signed_v<etl::%s> == %s" e bits e e (bs sg)))
    [ "int_fast8_t", 8, true; "int_fast16_t", 16, true; "int_fast32_t", 32, true; "int_fast64_t", 64, true;
      "uint_fast8_t", 8, false; "uint_fast16_t", 16, false; "uint_fast32_t", 32, false; "uint_fast64_t", 64, false ];
  obl "prop" "typedef" "max_align_t" "alignof(etl::max_align_t) == alignof(std::max_align_t)";
  obl "prop" "typedef" "byte" "std::is_same_v<std::underlying_type_t<etl::byte>, unsigned char> && std::is_enum_v<etl::byte> && !std::is_convertible_v<etl::byte, unsigned char>";
  (* ---- _meta *)
  List.iter (fun (k, c) -> obl "prop" "meta" k c)
    [ "at", "std::is_same_v<etl::meta::at_t<1, etl::meta::list<int, char, long>>, char>";
      "head", "std::is_same_v<etl::meta::head_t<etl::meta::list<int, char, long>>, int>";
      "tail", "std::is_same_v<etl::meta::tail_t<etl::meta::list<int, char, long>>, etl::meta::list<char, long>>";
      "push_back", "std::is_same_v<etl::meta::push_back_t<long, etl::meta::list<int, char>>, etl::meta::list<int, char, long>>";
      "push_front", "std::is_same_v<etl::meta::push_front_t<long, etl::meta::list<int, char>>, etl::meta::list<long, int, char>>";
      "count", "etl::meta::count_v<int, etl::meta::list<int, char, int>> == 2 && etl::meta::count_v<long, etl::meta::list<int, char>> == 0";
      "contains", "etl::meta::contains_v<char, etl::meta::list<int, char>> && !etl::meta::contains_v<long, etl::meta::list<int, char>> && !etl::meta::contains_v<int, etl::meta::list<>>";
      "index_of", "etl::meta::index_of_v<char, etl::meta::list<int, char, long>> == 1 && etl::meta::index_of_v<int, etl::meta::list<int, char, long>> == 0" ];
  (* ---- a fixed family of classes related by inheritance (the generated classes have no bases):
          public, private, virtual, ambiguous (diamond without virtual) and indirect bases *)
  line [ "H"; "namespace zb { struct B { int b; }; struct D : B { }; struct P : private B { }; struct V : virtual B { }; struct A1 : B { }; struct A2 : B { }; struct M : A1, A2 { }; struct I : D { }; struct Poly { virtual ~Poly(); }; struct PD : Poly { }; union U { int u; }; struct Conv { operator B() const; operator int() const noexcept; }; struct Expl { explicit Expl(B const&); Expl(int) noexcept; }; struct NC { NC(); NC(NC&); NC& operator=(NC&); }; struct MO { MO(MO&&) noexcept; MO& operator=(MO&&); }; struct PDt { private: ~PDt(); }; struct TDt { ~TDt() noexcept(false); }; struct WL { }; struct WR { }; bool operator==(WL, WR); void operator!=(WR, WL) = delete; struct NB { struct R2 { }; R2 operator==(NB) const; }; struct EQ { bool operator==(EQ const&) const; }; struct CA { CA(CA const&); CA(CA&&); CA& operator=(CA&); CA& operator=(CA&&); CA& operator=(CA const&&); CA& operator=(CA const&) = delete; }; struct Ex2 { explicit Ex2() = default; }; struct Agg { Ex2 e; }; struct Fun { int operator()(int) const; void operator()(char*) &&; long operator()(int, int) noexcept; }; struct SA { }; struct SB { }; void swap(SA&, SB&) noexcept; void swap(SB&, SA&); struct TD { TD() noexcept(false); }; struct NM2 { NM2(NM2&&) = delete; }; }" ];
  let fam = [ "zb::B"; "zb::D"; "zb::P"; "zb::V"; "zb::A1"; "zb::M"; "zb::I"; "zb::Poly"; "zb::PD"; "zb::U"; "zb::Conv"; "zb::Expl"; "zb::NC"; "zb::MO"; "zb::PDt"; "zb::TDt"; "zb::WL"; "zb::WR"; "zb::NB"; "zb::EQ"; "zb::CA"; "zb::Agg"; "zb::SA"; "zb::SB"; "zb::TD";
              "zb::D const"; "zb::B volatile"; "int"; "void" ] in
  List.iter (fun x -> List.iter (fun y ->
      let key = x ^ " ; " ^ y in
      List.iter (fun tr ->
          obl "prop" (tr ^ " (inheritance)") key (sp "etl::%s_v<%s, %s> == std::%s_v<%s, %s>" tr x y tr x y))
        [ "is_base_of"; "is_convertible"; "is_nothrow_convertible"; "is_constructible"; "is_nothrow_constructible"; "is_assignable"; "is_same" ];
      List.iter (fun c -> obl "prop" ("concept " ^ c ^ " (inheritance)") key (sp "etl::%s<%s, %s> == std::%s<%s, %s>" c x y c x y))
        [ "derived_from"; "convertible_to"; "constructible_from"; "same_as"; "assignable_from" ];
      obl "prop" "concept weakly_equality_comparable_with (inheritance)" key
        (sp "etl::weakly_equality_comparable_with<%s, %s> == std::__detail::__weakly_eq_cmp_with<%s, %s>" x y x y);
      if x <> "void" && y <> "void" then begin
        obl "prop" "pointer conversion (inheritance)" key
          (sp "etl::is_convertible_v<%s*, %s*> == std::is_convertible_v<%s*, %s*> && etl::is_constructible_v<%s&, %s&> == std::is_constructible_v<%s&, %s&> && etl::is_assignable_v<%s*&, %s*> == std::is_assignable_v<%s*&, %s*>" x y x y x y x y x y x y);
        obl "prop" "swappable_with (inheritance)" key
          (sp "etl::is_swappable_with_v<%s&, %s&> == std::is_swappable_with_v<%s&, %s&> && etl::is_nothrow_swappable_with_v<%s&, %s&> == std::is_nothrow_swappable_with_v<%s&, %s&>" x y x y x y x y);
        obl "prop" "common_type (inheritance)" key (sp "z::common_type_agrees<%s*, %s*> && z::common_type_agrees<%s, %s>" x y x y)
      end) fam) fam;
  List.iter (fun x ->
      List.iter (fun tr -> obl "prop" (tr ^ " (inheritance)") x (sp "etl::%s_v<%s> == std::%s_v<%s>" tr x tr x))
        (List.filter (fun tr -> tr <> "is_trivially_copy_constructible") prop_unary);
      List.iter (fun c -> obl "prop" ("concept " ^ c ^ " (inheritance)") x (sp "etl::%s<%s> == std::%s<%s>" c x c x))
        prop_concepts_unary;
      obl "prop" "concept boolean_testable (inheritance)" x (sp "etl::boolean_testable<%s> == std::__detail::__boolean_testable<%s> && etl::boolean_testable<decltype(std::declval<zb::NB>() == std::declval<zb::NB>())> == std::__detail::__boolean_testable<decltype(std::declval<zb::NB>() == std::declval<zb::NB>())>" x x);
      List.iter (fun sfx -> obl "prop" "unary traits on arrays / references (inheritance)" (x ^ sfx)
                    (* (whether the destructor of the temporary counts for is_nothrow_constructible is LWG 2116;
                        g++ 12 answers differently for T and T[N] when ~T() may throw: not compared for zb::TDt) *)
                    (sp "etl::is_default_constructible_v<%s%s> == std::is_default_constructible_v<%s%s> && (%s || etl::is_nothrow_default_constructible_v<%s%s> == std::is_nothrow_default_constructible_v<%s%s>) && (%s || etl::is_nothrow_constructible_v<%s%s> == std::is_nothrow_constructible_v<%s%s>) && etl::is_destructible_v<%s%s> == std::is_destructible_v<%s%s> && etl::is_nothrow_destructible_v<%s%s> == std::is_nothrow_destructible_v<%s%s> && etl::is_copy_constructible_v<%s%s> == std::is_copy_constructible_v<%s%s> && etl::is_move_assignable_v<%s%s> == std::is_move_assignable_v<%s%s> && etl::is_trivially_destructible_v<%s%s> == std::is_trivially_destructible_v<%s%s>" x sfx x sfx (bs (x = "zb::TDt")) x sfx x sfx (bs (x = "zb::TDt")) x sfx x sfx x sfx x sfx x sfx x sfx x sfx x sfx x sfx x sfx x sfx x sfx))
        (List.filter (fun sfx -> not (sfx = " const" && x = "zb::D const")) [ "[2]"; "[2][3]"; "&"; "&&"; " const"; "*" ]))
    (List.filter (fun x -> x <> "void" && x <> "int") fam);
  (* ---- etl::meta lists built from the zoo (with repetitions): every operation against ModelMeta.v *)
  let rec int_of_nat = function O -> 0 | S n -> 1 + int_of_nat n in
  let rec nat_of_int i = if i <= 0 then O else S (nat_of_int (i - 1)) in
  let tarr = Array.of_list types in
  let nt = Array.length tarr in
  let mlist l = "etl::meta::list<" ^ String.concat ", " (List.map tref l) ^ ">" in
  let nlists = if tier = "quick" then 24 else 120 in
  for j = 0 to nlists - 1 do
    let len = j mod 7 in
    let l = List.init len (fun i -> if i = 3 then tarr.((11 * j + seed) mod nt) (* repeats element 0 *)
                                    else tarr.((11 * j + 5 * i + seed) mod nt)) in
    let lk = sp "list %d: <%s>" j (String.concat ", " (List.map cxx l)) in
    let needles = (tarr.((11 * j + 1 + seed) mod nt)) :: (if len > 0 then [ List.nth l 0; List.nth l (len - 1) ] else []) in
    List.iter (fun n ->
        obl "corr" "meta::count" lk (sp "etl::meta::count_v<%s, %s> == %d" (tref n) (mlist l) (int_of_nat (count_m n l)));
        obl "corr" "meta::contains" lk (sp "etl::meta::contains_v<%s, %s> == %s" (tref n) (mlist l) (bs (contains_m n l)));
        (match index_of_m n l with
         | Some i -> obl "corr" "meta::index_of" lk (sp "etl::meta::index_of_v<%s, %s> == %d" (tref n) (mlist l) (int_of_nat i))
         | None -> ());
        obl "corr" "meta::push_back" lk (sp "std::is_same_v<etl::meta::push_back_t<%s, %s>, %s>" (tref n) (mlist l) (mlist (push_back_m n l)));
        obl "corr" "meta::push_front" lk (sp "std::is_same_v<etl::meta::push_front_t<%s, %s>, %s>" (tref n) (mlist l) (mlist (push_front_m n l))))
      needles;
    List.iteri (fun i _ ->
        match at_m (nat_of_int i) l with
        | Some x -> obl "corr" "meta::at" lk (sp "std::is_same_v<etl::meta::at_t<%d, %s>, %s>" i (mlist l) (tref x))
        | None -> ()) l;
    (match head_m l with Some x -> obl "corr" "meta::head" lk (sp "std::is_same_v<etl::meta::head_t<%s>, %s>" (mlist l) (tref x)) | None -> ());
    (match tail_m l with Some x -> obl "corr" "meta::tail" lk (sp "std::is_same_v<etl::meta::tail_t<%s>, %s>" (mlist l) (mlist x)) | None -> ())
  done;
  (* ---- aligned_storage<Len>: "default-alignment shall be the most stringent alignment requirement for any
          C++ object type whose size is no greater than Len" ([meta.trans.other]); libstdc++ over-aligns (16 for
          every Len), so the obligation is the standard's wording over the fundamental object types *)
  line [ "H"; "namespace z { template <std::size_t Len> constexpr std::size_t default_align = [] { std::size_t a = 1; auto f = [&a](std::size_t s, std::size_t al) { if (s <= Len && al > a) { a = al; } }; f(sizeof(short), alignof(short)); f(sizeof(char16_t), alignof(char16_t)); f(sizeof(wchar_t), alignof(wchar_t)); f(sizeof(int), alignof(int)); f(sizeof(long), alignof(long)); f(sizeof(long long), alignof(long long)); f(sizeof(void*), alignof(void*)); f(sizeof(void (*)()), alignof(void (*)())); f(sizeof(float), alignof(float)); f(sizeof(double), alignof(double)); f(sizeof(long double), alignof(long double)); f(sizeof(int zb::B::*), alignof(int zb::B::*)); f(sizeof(void (zb::B::*)()), alignof(void (zb::B::*)())); return a; }(); }" ];
  List.iter (fun len ->
      obl "prop" "aligned_storage default alignment" (string_of_int len)
        (sp "alignof(etl::aligned_storage_t<%d>) >= z::default_align<%d> && sizeof(etl::aligned_storage_t<%d>) >= %d && alignof(etl::aligned_storage_t<%d>) <= alignof(std::max_align_t) && alignof(std::aligned_storage_t<%d>) >= z::default_align<%d>" len len len len len len len))
    [ 1; 2; 3; 4; 5; 7; 8; 9; 12; 15; 16; 17; 24; 32; 64 ];
  (* ---- numeric_limits: the TYPE of every member (the run-time legs compare values only: `max()` returning
          int instead of unsigned short prints the same number), noexcept and constant-expression use of the
          member functions; every arithmetic type x cv *)
  List.iter (fun a ->
      List.iter (fun cvs ->
          let t = arith_name a ^ cvs in
          let fns = [ "min"; "max"; "lowest"; "epsilon"; "round_error"; "infinity"; "quiet_NaN"; "signaling_NaN"; "denorm_min" ] in
          let ints = [ "digits"; "digits10"; "max_digits10"; "radix"; "min_exponent"; "min_exponent10"; "max_exponent"; "max_exponent10" ] in
          let bools = [ "is_specialized"; "is_signed"; "is_integer"; "is_exact"; "has_infinity"; "has_quiet_NaN"; "has_signaling_NaN";
                        "has_denorm_loss"; "is_iec559"; "is_bounded"; "is_modulo"; "traps"; "tinyness_before" ] in
          let conj = String.concat " && " in
          obl "prop" "numeric_limits member types" t
            (conj (List.map (fun f -> sp "std::is_same_v<decltype(etl::numeric_limits<%s>::%s()), decltype(std::numeric_limits<%s>::%s())> && noexcept(etl::numeric_limits<%s>::%s()) && std::bool_constant<(etl::numeric_limits<%s>::%s(), true)>::value" t f t f t f t f) fns
                   @ List.map (fun m -> sp "std::is_same_v<decltype(etl::numeric_limits<%s>::%s), int const>" t m) ints
                   @ List.map (fun m -> sp "std::is_same_v<decltype(etl::numeric_limits<%s>::%s), bool const>" t m) bools
                   @ [ sp "std::is_same_v<decltype(etl::numeric_limits<%s>::has_denorm), etl::float_denorm_style const>" t;
                       sp "std::is_same_v<decltype(etl::numeric_limits<%s>::round_style), etl::float_round_style const>" t ])))
        [ ""; " const"; " volatile"; " const volatile" ])
    all_arith;
  (* ---- review round: the facilities that are compared with std only (author's gap list), on trickier inputs:
          references binding temporaries, aggregates with parenthesised initialisation, arrays (also of unknown
          bound), throwing / explicit conversion operators and constructors, pointer-like objects and ref-qualified
          member functions for INVOKE, cv-qualified and non-class operands of is_base_of *)
  line [ "H"; "namespace zp { struct B { int b; int f(int); int g(int) const&; int h() &&; int n() noexcept; }; struct D : B { }; struct Agg { int a; int b; }; struct TC { TC(int) noexcept(false); TC(long, long) noexcept; explicit TC(char*) noexcept; operator int() const noexcept(false); explicit operator long() const noexcept; }; struct Abs { virtual void f() = 0; }; struct SP { B& operator*() const; }; struct NTA { NTA& operator=(NTA const&) noexcept(false); NTA& operator=(NTA&&) noexcept; void operator=(int) noexcept; }; }" ];
  List.iter (fun (tr, a) -> obl "prop" (tr ^ " (probes)") a (sp "etl::%s_v<%s> == std::%s_v<%s> && etl::%s<%s>::value == std::%s_v<%s>" tr a tr a tr a tr a))
    [
      "is_nothrow_constructible", "int&, int&";
      "is_nothrow_constructible", "int&&, int";
      "is_nothrow_constructible", "int const&, long";
      "is_nothrow_constructible", "int&, long";
      "is_nothrow_constructible", "zp::B, zp::D";
      "is_nothrow_constructible", "zp::B&, zp::D&";
      "is_nothrow_constructible", "zp::D&, zp::B&";
      "is_nothrow_constructible", "zp::Agg, int, int";
      "is_nothrow_constructible", "zp::Agg, int";
      "is_nothrow_constructible", "zp::Agg";
      "is_nothrow_constructible", "zp::Agg, int, int, int";
      "is_nothrow_constructible", "zp::TC, int";
      "is_nothrow_constructible", "zp::TC, long, long";
      "is_nothrow_constructible", "zp::TC, char*";
      "is_nothrow_constructible", "zp::TC, short";
      "is_nothrow_constructible", "zp::TC, int, int";
      "is_nothrow_constructible", "int, zp::TC";
      "is_nothrow_constructible", "long, zp::TC";
      "is_nothrow_constructible", "int, zp::TC&";
      "is_nothrow_constructible", "double, zp::TC";
      "is_nothrow_constructible", "void";
      "is_nothrow_constructible", "void, int";
      "is_nothrow_constructible", "int()";
      "is_nothrow_constructible", "zp::Abs";
      "is_nothrow_constructible", "int, void";
      "is_nothrow_constructible", "int[], int";
      "is_nothrow_constructible", "int[]";
      "is_nothrow_constructible", "int[2], int";
      "is_nothrow_constructible", "int[2], int, int, int";
      "is_nothrow_constructible", "zp::TC[2], int, int";
      "is_nothrow_constructible", "zp::TC[2], int";
      "is_nothrow_constructible", "zp::Agg[2], zp::Agg";
      "is_nothrow_constructible", "int[2][2], int";
      "is_nothrow_constructible", "int*, int[2]";
      "is_nothrow_constructible", "int*, decltype(nullptr)";
      "is_nothrow_constructible", "void*, int*";
      "is_nothrow_constructible", "int*, void*";
      "is_constructible", "int[], int";
      "is_constructible", "int[], int, int";
      "is_constructible", "int[2][2], int";
      "is_constructible", "zp::Agg, int, int";
      "is_constructible", "zp::TC, long, long";
      "is_constructible", "zp::TC, int, int, int";
      "is_trivially_constructible", "zp::Agg, int, int";
      "is_trivially_constructible", "zp::Agg, zp::Agg const&";
      "is_trivially_constructible", "zp::TC, zp::TC&&";
      "is_trivially_constructible", "int, long";
      "is_nothrow_assignable", "zp::NTA&, zp::NTA const&";
      "is_nothrow_assignable", "zp::NTA&, zp::NTA";
      "is_nothrow_assignable", "zp::NTA&, int";
      "is_nothrow_assignable", "zp::NTA, zp::NTA";
      "is_nothrow_assignable", "zp::NTA const&, zp::NTA";
      "is_nothrow_assignable", "int&, zp::TC";
      "is_nothrow_assignable", "long&, zp::TC";
      "is_nothrow_assignable", "int, int";
      "is_nothrow_assignable", "int&, void";
      "is_nothrow_assignable", "void, void";
      "is_trivially_assignable", "int&, long";
      "is_trivially_assignable", "zp::Agg&, zp::Agg";
      "is_trivially_assignable", "zp::NTA&, zp::NTA";
      "is_invocable", "int zp::B::*, zp::SP";
      "is_invocable", "int (zp::B::*)(int), zp::SP, int";
      "is_invocable", "int (zp::B::*)(int), zp::B**, int";
      "is_invocable", "int (zp::B::*)(int) const&, zp::B, int";
      "is_invocable", "int (zp::B::*)() &&, zp::B&";
      "is_invocable", "int (zp::B::*)() &&, zp::B";
      "is_invocable_r", "int&, int zp::B::*, zp::SP";
      "is_invocable_r", "int&&, int zp::B::*, zp::B";
      "is_invocable_r", "int const&, int zp::B::*, zp::B const&";
      "is_invocable_r", "void, int zp::B::*, zp::B";
      "is_invocable_r", "zp::TC, int (zp::B::*)(int), zp::B&, int";
      "is_invocable_r", "char*, int (zp::B::*)(int), zp::B&, int";
      "is_swappable_with", "zp::B&, zp::D&";
      "is_swappable_with", "zp::B&, zp::B&";
      "is_swappable_with", "zp::B&&, zp::B&&";
      "is_swappable_with", "int&, int&";
      "is_swappable_with", "int&, int const&";
      "is_swappable_with", "void, void";
      "is_swappable_with", "int(&)[2], int(&)[2]";
      "is_nothrow_swappable_with", "zp::B&, zp::B&";
      "is_nothrow_swappable_with", "zp::TC&, zp::TC&";
      "is_nothrow_swappable_with", "zp::NTA&, zp::NTA&";
      "is_nothrow_swappable_with", "zp::NTA(&)[3], zp::NTA(&)[3]";
      "is_swappable", "void";
      "is_swappable", "int()";
      "is_swappable", "int&";
      "is_swappable", "int const";
      "is_swappable", "zp::B[2][3]";
      "is_swappable", "int[]";
      "is_swappable", "zp::Abs";
      "is_nothrow_swappable", "zp::NTA";
      "is_nothrow_swappable", "zp::NTA[2]";
      "is_nothrow_swappable", "zp::Abs";
      "is_nothrow_swappable", "int&&";
      "is_base_of", "zp::B, zp::D const";
      "is_base_of", "zp::B volatile, zp::D";
      "is_base_of", "zp::D, zp::B";
      "is_base_of", "zp::B, zp::B";
      "is_base_of", "int, int";
      "is_base_of", "zp::B&, zp::D&";
      "is_base_of", "zp::B*, zp::D*";
      "is_base_of", "zp::Abs, zp::Abs";
      "is_base_of", "void, void";
      "is_base_of", "zp::B[2], zp::D[2]";
      "is_base_of", "zp::B(), zp::D()";
    ];
  List.iter (fun a -> obl "prop" "invoke_result (probes)" a (sp "z::invoke_result_agrees<%s>" a))
    [ "int zp::B::*, zp::SP"; "int zp::B::*, zp::B const volatile&"; "int zp::B::*, zp::B&&"; "int const zp::B::*, zp::B&"; "int (zp::B::*)(int), zp::SP, short"; "int (zp::B::*)(int) const&, zp::D, int"; "int (zp::B::*)() &&, zp::D"; "int (zp::B::*)() noexcept, zp::D*"; "int zp::B::*, zp::B*&"; "int zp::B::*, zp::B* const"; "int (&)(int), char"; "int (*const&)(int), char"; "int (*volatile)(int), char"; "void"; "int"; "int, int"; "int zp::B::*"; "int zp::B::*, zp::B, zp::B" ];
  (* ---- review round: INCOMPLETE types (declared, never defined): every trait that does not need a complete type *)
  line [ "H"; "namespace zi { struct I; union IU; enum IE : int; enum class IS; }" ];
  List.iter (fun t ->
      obl "prop" "incomplete types" t
        (String.concat " && "
           (List.map (fun tr -> sp "etl::%s_v<%s> == std::%s_v<%s>" tr t tr t)
              [ "is_class"; "is_union"; "is_enum"; "is_pointer"; "is_reference"; "is_function"; "is_object"; "is_scalar"; "is_compound";
                "is_fundamental"; "is_arithmetic"; "is_const"; "is_volatile"; "is_array"; "is_void"; "is_member_pointer";
                "is_member_object_pointer"; "is_member_function_pointer"; "is_null_pointer"; "is_integral"; "is_floating_point";
                "is_signed"; "is_unsigned"; "rank"; "extent"; "is_bounded_array"; "is_unbounded_array"; "is_lvalue_reference";
                "is_rvalue_reference" ]
            @ List.map (fun tr -> sp "std::is_same_v<etl::%s_t<%s>, std::%s_t<%s>>" tr t tr t)
                [ "remove_cv"; "remove_const"; "remove_volatile"; "add_const"; "add_volatile"; "add_cv"; "remove_reference";
                  "add_lvalue_reference"; "add_rvalue_reference"; "add_pointer"; "remove_pointer"; "remove_extent";
                  "remove_all_extents"; "decay"; "remove_cvref"; "type_identity" ]
            @ [ sp "etl::is_same_v<%s, %s> && !etl::is_same_v<%s, int> && std::is_same_v<etl::conditional_t<false, int, %s>, %s> && z::common_type_agrees<%s*, %s*> && z::lang_scoped_enum<zi::IS> == etl::is_scoped_enum_v<zi::IS> && !etl::is_scoped_enum_v<zi::IE>" t t t t t "zi::I" "zi::I" ])))
    [ "zi::I"; "zi::I const"; "zi::I*"; "zi::I&"; "zi::I&&"; "zi::I[]"; "zi::I const volatile[]"; "zi::I[][3]"; "int zi::I::*";
      "void (zi::I::*)() const"; "zi::I (*)(zi::I)"; "zi::I(zi::I)"; "zi::IU"; "zi::IU*"; "zi::IE"; "zi::IS"; "zi::IE const";
      "zi::I* const volatile"; "zi::I (&)[]"; "zi::I (*)[2]" ];
  List.iter (fun (tr, a) -> obl "prop" (tr ^ " (incomplete types)") a (sp "etl::%s_v<%s> == std::%s_v<%s>" tr a tr a))
    [ "is_convertible", "zi::I*, void*"; "is_convertible", "zi::I&, zi::I&"; "is_convertible", "zi::I&, zi::I const&";
      "is_convertible", "zi::I*, zi::I const*"; "is_convertible", "zi::IE, int"; "is_convertible", "zi::IS, int";
      "is_base_of", "zi::I, zi::I"; "is_base_of", "zi::I, int"; "is_base_of", "zi::IU, zi::IU"; "is_base_of", "zi::I const, zi::I";
      "is_destructible", "zi::I&"; "is_copy_constructible", "zi::I&"; "is_move_constructible", "zi::I&&"; "is_copy_assignable", "zi::I*";
      "is_nothrow_destructible", "zi::I&"; "is_trivially_destructible", "zi::I&"; "is_assignable", "zi::I*&, zi::I*";
      "is_constructible", "zi::I const&, zi::I&" ];
  obl "prop" "incomplete types" "enumerations"
    "std::is_same_v<etl::underlying_type_t<zi::IE>, int> && std::is_same_v<etl::underlying_type_t<zi::IS>, std::underlying_type_t<zi::IS>> && std::is_same_v<etl::make_signed_t<zi::IE>, std::make_signed_t<zi::IE>> && std::is_same_v<etl::make_unsigned_t<zi::IS const>, std::make_unsigned_t<zi::IS const>> && etl::derived_from<zi::I, zi::I> == std::derived_from<zi::I, zi::I> && etl::convertible_to<zi::I&, zi::I const&> == std::convertible_to<zi::I&, zi::I const&> && etl::same_as<zi::I, zi::I>";
  (* ---- review round: classes that separate the conjuncts of the concepts (each conjunct is the only false one
          for some class below), relations that lack exactly one of the four argument orders, byte's compound
          assignment operators *)
  line [ "H"; "namespace zr { struct EM { EM(); explicit EM(EM&&); EM& operator=(EM&&); }; struct EC { EC(); EC(EC&&); explicit EC(EC const&); EC& operator=(EC const&); }; struct ECm { ECm(); ECm(ECm&&); ECm(ECm const&); explicit ECm(ECm&); ECm& operator=(ECm const&); }; struct F2 { }; struct T2 { T2(F2 const&); explicit T2(F2&&) = delete; }; struct T3 { explicit T3(F2 const&); }; struct T4 { T4(F2&); T4(F2 const&) = delete; }; struct RelAll { bool operator()(int, int) const; bool operator()(long*, long*) const; bool operator()(int, long*) const; bool operator()(long*, int) const; }; struct RelNoUT { bool operator()(int, int) const; bool operator()(long*, long*) const; bool operator()(int, long*) const; }; struct RelNoTU { bool operator()(int, int) const; bool operator()(long*, long*) const; bool operator()(long*, int) const; }; struct RelNoTT { bool operator()(long*, long*) const; bool operator()(int, long*) const; bool operator()(long*, int) const; }; struct RelNoUU { bool operator()(int, int) const; bool operator()(int, long*) const; bool operator()(long*, int) const; }; struct RelVoid { bool operator()(int, int) const; bool operator()(long*, long*) const; bool operator()(int, long*) const; void operator()(long*, int) const; }; struct RelMut { bool operator()(int, int); bool operator()(long*, long*); bool operator()(int, long*); bool operator()(long*, int); }; }" ];
  List.iter (fun x ->
      obl "prop" "concepts (explicit / deleted constructors)" x
        (String.concat " && " (List.map (fun c -> sp "etl::%s<%s> == std::%s<%s>" c x c x)
           [ "move_constructible"; "copy_constructible"; "movable"; "copyable"; "semiregular"; "regular"; "default_initializable"; "destructible"; "swappable" ])
         ^ sp " && etl::is_move_constructible_v<%s> == std::is_move_constructible_v<%s> && etl::is_copy_constructible_v<%s> == std::is_copy_constructible_v<%s> && etl::is_convertible_v<%s, %s> == std::is_convertible_v<%s, %s> && etl::is_convertible_v<%s const&, %s> == std::is_convertible_v<%s const&, %s> && etl::is_nothrow_convertible_v<%s, %s> == std::is_nothrow_convertible_v<%s, %s>" x x x x x x x x x x x x x x x x))
    [ "zr::EM"; "zr::EC"; "zr::ECm"; "zr::T2"; "zr::T3"; "zr::T4"; "zr::F2" ];
  List.iter (fun (f, t) ->
      obl "prop" "convertible_to (implicit and explicit conversion)" (f ^ " ; " ^ t)
        (sp "etl::convertible_to<%s, %s> == std::convertible_to<%s, %s> && etl::is_convertible_v<%s, %s> == std::is_convertible_v<%s, %s> && etl::constructible_from<%s, %s> == std::constructible_from<%s, %s> && etl::is_nothrow_convertible_v<%s, %s> == std::is_nothrow_convertible_v<%s, %s>" f t f t f t f t t f t f f t f t))
    [ "zr::F2", "zr::T2"; "zr::F2&", "zr::T2"; "zr::F2 const&", "zr::T2"; "zr::F2&&", "zr::T2"; "zr::F2 const", "zr::T2";
      "zr::F2", "zr::T3"; "zr::F2 const&", "zr::T3"; "zr::F2&", "zr::T4"; "zr::F2", "zr::T4"; "zr::F2 const&", "zr::T4";
      "zr::EM", "zr::EM"; "zr::EM&", "zr::EM"; "zr::EC const&", "zr::EC"; "zr::EC&", "zr::EC"; "zr::EC", "zr::EC";
      "zr::ECm&", "zr::ECm"; "zr::ECm const&", "zr::ECm"; "zr::ECm const", "zr::ECm" ];
  List.iter (fun r ->
      List.iter (fun (t, u) ->
          obl "prop" "relation concepts (argument orders)" (sp "%s ; %s ; %s" r t u)
            (String.concat " && " (List.map (fun c -> sp "etl::%s<%s, %s, %s> == std::%s<%s, %s, %s>" c r t u c r t u)
               [ "relation"; "equivalence_relation"; "strict_weak_order" ])
             ^ sp " && etl::predicate<%s, %s, %s> == std::predicate<%s, %s, %s> && etl::regular_invocable<%s, %s, %s> == std::regular_invocable<%s, %s, %s>" r t u r t u r t u r t u))
        [ "int", "long*"; "long*", "int"; "int", "int"; "long*", "long*"; "int&", "long* const&" ])
    [ "zr::RelAll"; "zr::RelNoUT"; "zr::RelNoTU"; "zr::RelNoTT"; "zr::RelNoUU"; "zr::RelVoid"; "zr::RelMut"; "zr::RelMut&"; "zr::RelAll const&" ];
  line [ "H"; "namespace zr { template <class B> constexpr long long byte_ops(int x, int y, int s) { B b{static_cast<unsigned char>(x)}; B const c{static_cast<unsigned char>(y)}; long long r = 0; b |= c; r = r * 256 + static_cast<int>(b); b = B{static_cast<unsigned char>(x)}; b &= c; r = r * 256 + static_cast<int>(b); b = B{static_cast<unsigned char>(x)}; b ^= c; r = r * 256 + static_cast<int>(b); b = B{static_cast<unsigned char>(x)}; b <<= s; r = r * 256 + static_cast<int>(b); b = B{static_cast<unsigned char>(x)}; b >>= s; r = r * 256 + static_cast<int>(b); b = B{static_cast<unsigned char>(x)}; B& q = ((b |= c) ^= B{0x3C}); q <<= 1; return r * 7 + static_cast<int>(b) + (&q == &b ? 1000 : 0); } }" ];
  List.iter (fun (x, y, s) ->
      obl "prop" "byte compound assignment" (sp "%d %d %d" x y s)
        (sp "zr::byte_ops<etl::byte>(%d, %d, %d) == zr::byte_ops<std::byte>(%d, %d, %d)" x y s x y s))
    [ 0xA5, 0x0F, 1; 0xFF, 0x81, 7; 0x5A, 0xC3, 3; 0x01, 0xFE, 0; 0x80, 0x7F, 4; 0x33, 0x55, 2 ];
  obl "prop" "byte compound assignment" "types"
    "std::is_same_v<decltype(std::declval<etl::byte&>() |= etl::byte{}), etl::byte&> && std::is_same_v<decltype(std::declval<etl::byte&>() &= etl::byte{}), etl::byte&> && std::is_same_v<decltype(std::declval<etl::byte&>() ^= etl::byte{}), etl::byte&> && std::is_same_v<decltype(std::declval<etl::byte&>() <<= 1), etl::byte&> && std::is_same_v<decltype(std::declval<etl::byte&>() >>= 1UL), etl::byte&> && noexcept(std::declval<etl::byte&>() |= etl::byte{}) && noexcept(std::declval<etl::byte&>() <<= 1) && noexcept(etl::byte{} | etl::byte{}) && noexcept(~etl::byte{}) && noexcept(etl::to_integer<int>(etl::byte{})) && std::is_same_v<decltype(etl::byte{} << 1), etl::byte> && std::is_same_v<decltype(~etl::byte{}), etl::byte> && std::is_same_v<decltype(etl::to_integer<short>(etl::byte{})), short>";
  (* ---- common_type and PROGRAM-DEFINED specialisations ([meta.trans.other]/3.3: when T1 or T2 is not a
          decayed type the result is that of common_type<D1, D2>, which a program may have specialised;
          etl itself specialises it for chrono::duration and chrono::time_point) *)
  line [ "H"; "namespace zb { struct CX { }; struct CY { }; struct CZ { }; }" ];
  line [ "H"; "template <> struct std::common_type<zb::CX, zb::CY> { using type = zb::CZ; }; template <> struct std::common_type<zb::CY, zb::CX> { using type = zb::CZ; };" ];
  line [ "H"; "/*etl*/ template <> struct etl::common_type<zb::CX, zb::CY> { using type = zb::CZ; }; template <> struct etl::common_type<zb::CY, zb::CX> { using type = zb::CZ; };" ];
  line [ "H"; "/*etl*/ namespace zb { using Du3 = etl::chrono::duration<int, etl::ratio<1, 3>>; using Du2 = etl::chrono::duration<long, etl::ratio<1, 2>>; }" ];
  List.iter (fun (a, b) ->
      obl "prop" "common_type (program-defined specialisation)" (a ^ " ; " ^ b)
        (sp "z::common_type_agrees<%s, %s> && z::common_type_agrees<%s, %s> && std::is_same_v<etl::common_type_t<%s, %s>, zb::CZ>" a b b a a b))
    [ "zb::CX", "zb::CY"; "zb::CX const&", "zb::CY&"; "zb::CX const", "zb::CY"; "zb::CX", "zb::CY volatile";
      "zb::CX&&", "zb::CY const volatile&"; "zb::CX&", "zb::CY" ];
  obl "prop" "common_type (program-defined specialisation)" "n-ary, same type"
    "z::common_type_agrees<zb::CX, zb::CY, zb::CZ> && z::common_type_agrees<zb::CX&, zb::CY const&, zb::CZ&&> && z::common_type_agrees<zb::CX, zb::CY, zb::CX> && z::common_type_agrees<zb::CX&, zb::CX const> && z::common_type_agrees<zb::CY const&>";
  List.iter (fun (a, b) ->
      obl "prop" "common_type (etl::chrono specialisations)" (a ^ " ; " ^ b)
        (sp "std::is_same_v<etl::common_type_t<%s, %s>, etl::common_type_t<zb::Du3, zb::Du2>> && std::is_same_v<etl::common_type_t<%s, %s>, etl::chrono::duration<long, etl::ratio<1, 6>>>" a b b a))
    [ "zb::Du3", "zb::Du2"; "zb::Du3 const&", "zb::Du2"; "zb::Du3", "zb::Du2&&"; "zb::Du3 const", "zb::Du2 volatile&" ];
  (* ---- variadic / ternary forms, etl extensions, ratio typedefs *)
  List.iter (fun (k, c) -> obl "prop" "misc" k c)
    [ "common_type 3", "z::common_type_agrees<char, short, double> && z::common_type_agrees<int, unsigned, long> && z::common_type_agrees<int*, int const*, void*> && z::common_type_agrees<int, int*, long> && z::common_type_agrees<> && z::common_type_agrees<float, long long, unsigned char, bool>";
      "invoke_result n-ary", "z::invoke_result_agrees<int (*)(int, char), long, double> && z::invoke_result_agrees<int (*)(int, char), long> && z::invoke_result_agrees<void (&)(), int> && z::invoke_result_agrees<void (&)()> && z::invoke_result_agrees<double (*)(int&), int> && z::invoke_result_agrees<double (*)(int&), int&> && z::invoke_result_agrees<int (*)(...) noexcept, int, char, void*>";
      "is_invocable n-ary", "etl::is_invocable_v<int (*)(int, char), long, double> == std::is_invocable_v<int (*)(int, char), long, double> && etl::is_invocable_v<int (*)(int&), int> == std::is_invocable_v<int (*)(int&), int> && etl::is_invocable_r_v<long, int (*)(int, char), int, int> == std::is_invocable_r_v<long, int (*)(int, char), int, int> && etl::is_invocable_r_v<void*, int (*)(int), int> == std::is_invocable_r_v<void*, int (*)(int), int> && etl::is_invocable_r_v<void, int (*)(int), int> == std::is_invocable_r_v<void, int (*)(int), int>";
      "relation concepts", "etl::relation<bool (*)(int, long), int, long> == std::relation<bool (*)(int, long), int, long> && etl::relation<bool (*)(int, int*), int, int*> == std::relation<bool (*)(int, int*), int, int*> && etl::equivalence_relation<bool (*)(int, int), int, int> == std::equivalence_relation<bool (*)(int, int), int, int> && etl::strict_weak_order<bool (*)(int, int), int, int> == std::strict_weak_order<bool (*)(int, int), int, int> && etl::strict_weak_order<void (*)(int, int), int, int> == std::strict_weak_order<void (*)(int, int), int, int> && etl::predicate<bool (*)(int, char), int, char> == std::predicate<bool (*)(int, char), int, char> && etl::regular_invocable<int (*)(int, char), int, char> == std::regular_invocable<int (*)(int, char), int, char>";
      "unwrap_reference", "std::is_same_v<etl::unwrap_reference_t<int>, int> && std::is_same_v<etl::unwrap_reference_t<int const&>, int const&> && std::is_same_v<etl::unwrap_ref_decay_t<int const&>, int> && std::is_same_v<etl::unwrap_ref_decay_t<int[3]>, int*> && std::is_same_v<etl::unwrap_ref_decay_t<void()>, void (*)()> && !etl::is_reference_wrapper_v<int> && !etl::is_reference_wrapper_v<int&>";
      "is_specialized", "etl::is_specialized_v<z::z_tmpl, int> && !etl::is_specialized_v<z::z_tmpl, char>";
      "always_false / index_constant", "!etl::always_false<int, char> && !etl::always_false<> && std::is_same_v<etl::index_constant<3>, etl::integral_constant<etl::size_t, 3>> && etl::index_v<5>() == 5";
      "declval", "std::is_same_v<decltype(etl::declval<int>()), int&&> && std::is_same_v<decltype(etl::declval<int&>()), int&> && std::is_same_v<decltype(etl::declval<void>()), void> && std::is_same_v<decltype(etl::declval<int const[2]>()), int const(&&)[2]> && noexcept(etl::declval<int>())";
      "ratio SI typedefs", "std::ratio_equal_v<std::ratio<etl::atto::num, etl::atto::den>, std::atto> && std::ratio_equal_v<std::ratio<etl::femto::num, etl::femto::den>, std::femto> && std::ratio_equal_v<std::ratio<etl::pico::num, etl::pico::den>, std::pico> && std::ratio_equal_v<std::ratio<etl::nano::num, etl::nano::den>, std::nano> && std::ratio_equal_v<std::ratio<etl::micro::num, etl::micro::den>, std::micro> && std::ratio_equal_v<std::ratio<etl::milli::num, etl::milli::den>, std::milli> && std::ratio_equal_v<std::ratio<etl::centi::num, etl::centi::den>, std::centi> && std::ratio_equal_v<std::ratio<etl::deci::num, etl::deci::den>, std::deci> && std::ratio_equal_v<std::ratio<etl::deca::num, etl::deca::den>, std::deca> && std::ratio_equal_v<std::ratio<etl::hecto::num, etl::hecto::den>, std::hecto> && std::ratio_equal_v<std::ratio<etl::kilo::num, etl::kilo::den>, std::kilo> && std::ratio_equal_v<std::ratio<etl::mega::num, etl::mega::den>, std::mega> && std::ratio_equal_v<std::ratio<etl::giga::num, etl::giga::den>, std::giga> && std::ratio_equal_v<std::ratio<etl::tera::num, etl::tera::den>, std::tera> && std::ratio_equal_v<std::ratio<etl::peta::num, etl::peta::den>, std::peta> && std::ratio_equal_v<std::ratio<etl::exa::num, etl::exa::den>, std::exa>";
      "is_constant_evaluated", "etl::is_constant_evaluated()";
      "invoke_result member pointers", "z::invoke_result_agrees<int (zb::B::*)(int), zb::B&, int> && z::invoke_result_agrees<int (zb::B::*)(int), zb::B*, int> && z::invoke_result_agrees<int (zb::B::*)(int), zb::D&, long> && z::invoke_result_agrees<int (zb::B::*)(int), zb::B const&, int> && z::invoke_result_agrees<int (zb::B::*)(int) const, zb::B const&, int> && z::invoke_result_agrees<int (zb::B::*)(int) &&, zb::B&, int> && z::invoke_result_agrees<int (zb::B::*)(int) &&, zb::B, int> && z::invoke_result_agrees<int zb::B::*, zb::B&> && z::invoke_result_agrees<int zb::B::*, zb::D*> && z::invoke_result_agrees<int zb::B::*, zb::B const> && z::invoke_result_agrees<int zb::B::*, zb::B&, int> && z::invoke_result_agrees<int zb::B::*, int> && z::invoke_result_agrees<int (zb::B::*)(int), zb::P&, int> && z::invoke_result_agrees<int (zb::B::*)(int) noexcept, zb::I*, char>";
      "invoke with reference_wrapper", "std::is_same_v<etl::invoke_result_t<int zb::B::*, etl::reference_wrapper<zb::B>>, std::invoke_result_t<int zb::B::*, std::reference_wrapper<zb::B>>> && std::is_same_v<etl::invoke_result_t<int (zb::B::*)(int), etl::reference_wrapper<zb::D>, int>, std::invoke_result_t<int (zb::B::*)(int), std::reference_wrapper<zb::D>, int>> && std::is_same_v<etl::invoke_result_t<int zb::B::*, etl::reference_wrapper<zb::B const>>, std::invoke_result_t<int zb::B::*, std::reference_wrapper<zb::B const>>> && etl::is_invocable_v<int zb::B::*, etl::reference_wrapper<zb::B>> && etl::is_reference_wrapper_v<etl::reference_wrapper<int>> && std::is_same_v<etl::unwrap_reference_t<etl::reference_wrapper<int>>, int&> && std::is_same_v<etl::unwrap_ref_decay_t<etl::reference_wrapper<int> const&>, int&>";
      "functors", "z::invoke_result_agrees<zb::Fun, int> && z::invoke_result_agrees<zb::Fun&, int> && z::invoke_result_agrees<zb::Fun const&, int> && z::invoke_result_agrees<zb::Fun, char*> && z::invoke_result_agrees<zb::Fun&, char*> && z::invoke_result_agrees<zb::Fun const, int, int> && z::invoke_result_agrees<zb::Fun&, int, int> && z::invoke_result_agrees<zb::Fun, void*> && z::invoke_result_agrees<zb::Fun> && etl::is_invocable_v<zb::Fun&, char*> == std::is_invocable_v<zb::Fun&, char*> && etl::is_invocable_v<zb::Fun, char*> == std::is_invocable_v<zb::Fun, char*> && etl::is_invocable_r_v<short, zb::Fun const&, int> == std::is_invocable_r_v<short, zb::Fun const&, int> && etl::is_invocable_r_v<char*, zb::Fun const&, int> == std::is_invocable_r_v<char*, zb::Fun const&, int> && etl::invocable<zb::Fun&, int, int> == std::invocable<zb::Fun&, int, int> && etl::predicate<zb::Fun const&, int> == std::predicate<zb::Fun const&, int> && etl::predicate<zb::Fun, char*> == std::predicate<zb::Fun, char*> && etl::relation<zb::Fun&, int, int> == std::relation<zb::Fun&, int, int>";
      "array construction and swap", "etl::is_constructible_v<int[2], int, int> == std::is_constructible_v<int[2], int, int> && etl::is_nothrow_constructible_v<int[2], int, int> == std::is_nothrow_constructible_v<int[2], int, int> && etl::is_constructible_v<int[2]> == std::is_constructible_v<int[2]> && etl::is_nothrow_constructible_v<zb::TD[2]> == std::is_nothrow_constructible_v<zb::TD[2]> && etl::is_swappable_with_v<int (&)[2], int (&)[2]> == std::is_swappable_with_v<int (&)[2], int (&)[2]> && etl::is_swappable_with_v<int (&)[2], int (&)[3]> == std::is_swappable_with_v<int (&)[2], int (&)[3]> && etl::is_swappable_with_v<int (&)[2], long (&)[2]> == std::is_swappable_with_v<int (&)[2], long (&)[2]> && etl::is_nothrow_swappable_v<zb::MO[2]> == std::is_nothrow_swappable_v<zb::MO[2]> && etl::is_swappable_v<zb::NM2[2]> == std::is_swappable_v<zb::NM2[2]> && etl::swappable<zb::NM2[2]> == std::swappable<zb::NM2[2]> && etl::is_swappable_with_v<int&, long&> == std::is_swappable_with_v<int&, long&> && etl::is_swappable_with_v<int, int> == std::is_swappable_with_v<int, int>";
      "is_invocable member pointers", "etl::is_invocable_v<int (zb::B::*)(int), zb::B&, int> == std::is_invocable_v<int (zb::B::*)(int), zb::B&, int> && etl::is_invocable_v<int (zb::B::*)(int), zb::B const&, int> == std::is_invocable_v<int (zb::B::*)(int), zb::B const&, int> && etl::is_invocable_v<int zb::B::*, zb::D*> == std::is_invocable_v<int zb::B::*, zb::D*> && etl::is_invocable_v<int zb::B::*, zb::M&> == std::is_invocable_v<int zb::B::*, zb::M&> && etl::is_invocable_r_v<long, int zb::B::*, zb::B&> == std::is_invocable_r_v<long, int zb::B::*, zb::B&> && etl::is_invocable_r_v<int&, int zb::B::*, zb::B&> == std::is_invocable_r_v<int&, int zb::B::*, zb::B&> && etl::is_invocable_r_v<int&, int zb::B::*, zb::B> == std::is_invocable_r_v<int&, int zb::B::*, zb::B>";
      "byte", "etl::to_integer<int>(etl::byte{5} << 2) == std::to_integer<int>(std::byte{5} << 2) && etl::to_integer<unsigned>(etl::byte{0xF0} >> 3) == std::to_integer<unsigned>(std::byte{0xF0} >> 3) && etl::to_integer<int>(etl::byte{0x81} << 1) == std::to_integer<int>(std::byte{0x81} << 1) && etl::to_integer<int>(etl::byte{0xA5} | etl::byte{0x0F}) == std::to_integer<int>(std::byte{0xA5} | std::byte{0x0F}) && etl::to_integer<int>(etl::byte{0xA5} & etl::byte{0x0F}) == std::to_integer<int>(std::byte{0xA5} & std::byte{0x0F}) && etl::to_integer<int>(etl::byte{0xA5} ^ etl::byte{0xFF}) == std::to_integer<int>(std::byte{0xA5} ^ std::byte{0xFF}) && etl::to_integer<int>(~etl::byte{0xA5}) == std::to_integer<int>(~std::byte{0xA5}) && etl::to_integer<signed char>(etl::byte{0xFF}) == std::to_integer<signed char>(std::byte{0xFF}) && sizeof(etl::byte) == 1";
      "numeric_limits primary template", "!etl::numeric_limits<int*>::is_specialized && etl::numeric_limits<int*>::digits == 0 && !etl::numeric_limits<zb::B>::is_specialized && !etl::numeric_limits<zb::B>::is_signed && etl::numeric_limits<zb::B>::radix == 0 && etl::numeric_limits<int*>::max() == nullptr && etl::numeric_limits<int const volatile>::max() == std::numeric_limits<int const volatile>::max() && std::is_same_v<decltype(etl::numeric_limits<short const>::min()), short> && etl::numeric_limits<zb::B>::round_style == etl::round_toward_zero && etl::numeric_limits<zb::B>::has_denorm == etl::denorm_absent";
      "float_round_style / float_denorm_style", "static_cast<int>(etl::round_indeterminate) == static_cast<int>(std::round_indeterminate) && static_cast<int>(etl::round_toward_zero) == static_cast<int>(std::round_toward_zero) && static_cast<int>(etl::round_to_nearest) == static_cast<int>(std::round_to_nearest) && static_cast<int>(etl::round_toward_infinity) == static_cast<int>(std::round_toward_infinity) && static_cast<int>(etl::round_toward_neg_infinity) == static_cast<int>(std::round_toward_neg_infinity) && static_cast<int>(etl::denorm_indeterminate) == static_cast<int>(std::denorm_indeterminate) && static_cast<int>(etl::denorm_absent) == static_cast<int>(std::denorm_absent) && static_cast<int>(etl::denorm_present) == static_cast<int>(std::denorm_present)";
    ];
  (* ---- INVOKE (fix-miss round 5): the case analysis of detail::INVOKE / invoke_impl (coq/C15/ModelInvoke.v) over
          callables x qualifications of the callable type x object forms x argument lists.  The extracted model
          (invoke_m) / specification (std_invoke_q, [func.require]) select the INVOKE expression; the expression is
          printed as one of the question templates zi::q_* and the compiler answers it (well-formed? type?).
            corr    : etl::invoke_result / is_invocable / is_invocable_r == the answer to the MODEL's question
            specval : std::...                                          == the answer to the SPEC's question
            prop    : etl == std (invoke_result, is_invocable, is_invocable_r, invocable, regular_invocable)
          Classes of namespace zi stand for descriptors with cid 901..909 (inheritance and reference_wrapper are
          outside the universe: the oracles base_of / refwrap of the model are the tables below). *)
  line [ "H"; "namespace zi { struct S { int d; long get() const; int f(int); int h() &&; int g(int) const& noexcept; }; struct D : S { }; struct PD : private S { }; struct SP { S& operator*() const; }; struct SPR { S& operator*() &&; S const& operator*() const& = delete; }; union U { int a; float b; int uf(); }; struct Fun { int operator()(int) const; void operator()(char*) &&; long operator()(int, int) noexcept; }; }" ];
  line [ "H"; "namespace zi { template <class T> T ret(); template <class T> void use(T); struct q_none { }; template <class Q> constexpr bool has = requires { typename Q::type; }; template <class, class F, class... A> struct call_ { }; template <class F, class... A> struct call_<std::void_t<decltype(std::declval<F>()(std::declval<A>()...))>, F, A...> { using type = decltype(std::declval<F>()(std::declval<A>()...)); }; template <class F, class... A> using q_call = call_<void, F, A...>; template <int O, class T1> struct objx; template <class T1> struct objx<0, T1> { template <class X = T1> static auto get() -> decltype(std::declval<X>()); }; template <class T1> struct objx<1, T1> { template <class X = T1> static auto get() -> decltype(std::declval<std::remove_reference_t<X>&>().get()); }; template <class T1> struct objx<2, T1> { template <class X = T1> static auto get() -> decltype(*std::declval<X>()); }; }" ];
  line [ "H"; "namespace zi { template <class, int O, class PM, class T1, class... A> struct memfn_ { }; template <int O, class PM, class T1, class... A> struct memfn_<std::void_t<decltype((objx<O, T1>::get().*std::declval<PM&>())(std::declval<A>()...))>, O, PM, T1, A...> { using type = decltype((objx<O, T1>::get().*std::declval<PM&>())(std::declval<A>()...)); }; template <int O, class PM, class T1, class... A> using q_memfn = memfn_<void, O, PM, T1, A...>; template <class, int O, class PM, class T1> struct memdata_ { }; template <int O, class PM, class T1> struct memdata_<std::void_t<decltype(objx<O, T1>::get().*std::declval<PM&>())>, O, PM, T1> { using type = decltype(objx<O, T1>::get().*std::declval<PM&>()); }; template <int O, class PM, class T1> using q_memdata = memdata_<void, O, PM, T1>; }" ];
  line [ "H"; "namespace zi { template <class R, class Q> constexpr bool agree = [] { if constexpr (has<R> != has<Q>) { return false; } else if constexpr (has<Q>) { return std::is_same_v<typename R::type, typename Q::type>; } else { return true; } }(); template <class T, class R> constexpr bool use_ok = requires { use<R>(ret<T>()); }; template <class Q, class R, bool V> constexpr bool conv_m = [] { if constexpr (!has<Q>) { return false; } else if constexpr (V) { return true; } else { return use_ok<typename Q::type, R>; } }(); template <class Q, class R, bool V> constexpr bool conv_s = [] { if constexpr (!has<Q>) { return false; } else if constexpr (V) { return true; } else { return std::is_convertible_v<typename Q::type, R>; } }(); }" ];
  let icls id data = { (pc (nz id)) with c_data = data } in
  let cS = icls 901 true and cD = icls 902 true and cRWS = icls 903 false and cRWD = icls 904 false
  and cRWCS = icls 905 false and cSP = icls 906 false and cPD = icls 907 true and cU = icls 908 true
  and cFun = icls 909 false and cSPR = icls 910 false in
  let icid d = int_of_string (str_of_n d.cid) in
  let iname ns d = match icid d with
    | 901 -> "zi::S" | 902 -> "zi::D" | 903 -> ns ^ "::reference_wrapper<zi::S>" | 904 -> ns ^ "::reference_wrapper<zi::D>"
    | 905 -> ns ^ "::reference_wrapper<zi::S const>" | 906 -> "zi::SP" | 907 -> "zi::PD" | 908 -> "zi::U"
    | 909 -> "zi::Fun" | 910 -> "zi::SPR" | _ -> "z::" ^ cls_name "C" d in
  let rec icxx ns (t : cty) : string =
    match t with
    | Ptr u -> "z::P<" ^ icxx ns u ^ ">"
    | LRef u -> "z::LR<" ^ icxx ns u ^ ">"
    | RRef u -> "z::RR<" ^ icxx ns u ^ ">"
    | Arr (e, Some n) -> sp "z::A<%s, %s>" (icxx ns e) (str_of_n n)
    | Arr (e, None) -> "z::AU<" ^ icxx ns e ^ ">"
    | Fn (r, args, c, v, q, ne, va) ->
        sp "z::FN%s%s%d%s%s<%s>" (b01 c) (b01 v) (rq_code q) (b01 ne) (b01 va) (String.concat ", " (List.map (icxx ns) (r :: args)))
    | MemPtr (d, u) -> sp "z::MP<%s, %s>" (icxx ns u) (iname ns d)
    | Class d -> iname ns d
    | Cv (c, v, u) -> (if c && v then "z::CVQ<" else if c then "z::CQ<" else "z::VQ<") ^ icxx ns u ^ ">"
    | _ -> cxx t in
  (* readable key: the usual declarator syntax is not needed, the alias spelling is unambiguous *)
  (* is_base_of_v<B, T> between the classes of namespace zi (false for the union U and itself) *)
  let base_tab = [ 901, 901; 901, 902; 901, 907; 902, 902; 903, 903; 904, 904; 905, 905; 906, 906; 907, 907; 909, 909; 910, 910 ] in
  let base_of (b : clsdesc) (t : cty) = match t with Class d -> List.mem (icid b, icid d) base_tab | _ -> false in
  let refwrap (t : cty) = match t with Class d -> List.mem (icid d) [ 903; 904; 905 ] | _ -> false in
  let ocode = function ODirect -> 0 | ORefWrap -> 1 | ODeref -> 2 in
  let qcxx ns = function
    | IQNone -> "zi::q_none"
    | IQCall (f, a) -> sp "zi::q_call<%s>" (String.concat ", " (List.map (icxx ns) (f :: a)))
    | IQMemFn (pm, o, t1, a) -> sp "zi::q_memfn<%d, %s>" (ocode o) (String.concat ", " (List.map (icxx ns) (pm :: t1 :: a)))
    | IQMemData (pm, o, t1) -> sp "zi::q_memdata<%d, %s, %s>" (ocode o) (icxx ns pm) (icxx ns t1) in
  let s_ = Class cS and d_ = Class cD and u_ = Class cU in
  let cq t = qual true false t and vq t = qual false true t and cvq t = qual true true t in
  let long_ = Arith ALong in
  let pmf_get = MemPtr (cS, fn ~c:true long_ []) and pmf_f = MemPtr (cS, fn int_ [ int_ ])
  and pmf_h = MemPtr (cS, fn ~q:RQrref int_ []) and pmf_g = MemPtr (cS, fn ~c:true ~q:RQlref ~ne:true int_ [ int_ ])
  and pmd = MemPtr (cS, int_) and pmd_c = MemPtr (cS, cq int_) and pm_u = MemPtr (cU, int_)
  and pmf_u = MemPtr (cU, fn int_ []) and pmd_d = MemPtr (cD, int_) in
  let qforms_all f = [ f; cq f; vq f; cvq f; LRef f; LRef (cq f); LRef (vq f); LRef (cvq f); RRef f; RRef (cq f); RRef (cvq f) ] in
  let qforms_some f = [ f; cq f; LRef (cq f); RRef (vq f); LRef f ] in
  let objs =
    [ s_; LRef s_; LRef (cq s_); RRef s_; cq s_; LRef (vq s_); RRef (cq s_); Ptr s_; Ptr (cq s_); LRef (cq (Ptr s_)); cvq (Ptr s_);
      d_; LRef d_; RRef (cq d_); Ptr d_; LRef (Ptr (cq d_));
      Class cRWS; LRef (Class cRWS); LRef (cq (Class cRWS)); RRef (Class cRWS); Class cRWD; LRef (cq (Class cRWD)); Class cRWCS; LRef (Class cRWCS);
      LRef (Class cPD); Ptr (Class cPD); Class cSP; LRef (cq (Class cSP)); Class cSPR; LRef (Class cSPR); int_; Ptr int_;
      u_; LRef u_; LRef (cq u_); Ptr u_; Arr (s_, some_n 2); LRef (Arr (s_, some_n 2)); LRef (Arr (cq s_, some_n 2)); Ptr (Ptr s_) ] in
  let charp = Ptr (Arith AChar) in
  let rests_of f = match f with
    | MemPtr (_, Fn (_, [], _, _, _, _, _)) -> [ []; [ int_ ] ]
    | MemPtr (_, Fn (_, _, _, _, _, _, _)) -> if tier = "quick" then [ [ int_ ]; [ charp ]; [] ] else [ [ int_ ]; [ long_ ]; [ charp ]; []; [ int_; int_ ] ]
    | _ -> [ []; [ int_ ] ] in
  let combos =
    List.concat_map (fun (f, qf) ->
        (* quick tier: the two callables of the full cross meet every object form; the others half of them, rotating with the seed *)
        let objs' = if tier = "quick" && qf f != qforms_all f && List.length (qf f) < 11 then List.filteri (fun i _ -> i mod 2 = seed mod 2) objs else objs in
        List.concat_map (fun fq -> List.concat_map (fun o -> List.map (fun r -> (f, fq, o :: r)) (rests_of f)) objs') (qf f))
      [ pmf_get, qforms_all; pmd, qforms_all; pmf_f, qforms_some; pmf_h, qforms_some; pmf_g, qforms_some; pmd_c, qforms_some;
        pm_u, qforms_some; pmf_u, qforms_some; pmd_d, qforms_some ]
    @ List.concat_map (fun f ->
        List.concat_map (fun fq -> List.map (fun a -> (f, fq, a)) [ []; [ int_ ]; [ charp ]; [ int_; int_ ]; [ s_ ]; [ LRef int_ ]; [ Class cRWS ] ])
          (List.filter wf (dedup (qforms_all f))))
      [ Class cFun; Ptr (fn int_ [ int_ ]); LRef (fn int_ [ int_ ]); fn int_ [ int_ ]; int_; Ptr (fn ~ne:true ~va:true long_ []) ]
    (* no arguments at all *)
    @ List.map (fun fq -> (pmd, fq, [])) (qforms_some pmd) @ List.map (fun fq -> (pmf_get, fq, [])) (qforms_some pmf_get) in
  let rs = [ Void; long_; LRef int_; cq Void; RRef int_; LRef (cq long_) ] in
  let is_union_pm f = match f with MemPtr (d, _) -> icid d = 908 | _ -> false in
  List.iter (fun (f, fq, args) ->
      if wf fq && List.for_all wf args then begin
        let key = String.concat ", " (List.map (icxx "etl") (fq :: args)) in
        let la ns = String.concat ", " (List.map (icxx ns) (fq :: args)) in
        let qm = invoke_m base_of refwrap fq args and qs = std_invoke_q base_of refwrap fq args in
        let conj = String.concat " && " in
        obl "corr" "INVOKE (case analysis)" key
          (conj (sp "zi::agree<etl::invoke_result<%s>, %s>" (la "etl") (qcxx "etl" qm)
                 :: sp "etl::is_invocable_v<%s> == zi::has<%s>" (la "etl") (qcxx "etl" qm)
                 :: sp "etl::is_invocable<%s>::value == zi::has<%s>" (la "etl") (qcxx "etl" qm)
                 :: List.map (fun r -> sp "etl::is_invocable_r_v<%s, %s> == zi::conv_m<%s, %s, %s>" (icxx "etl" r) (la "etl") (qcxx "etl" qm) (icxx "etl" r) (bs (is_void_m r))) rs));
        (* libstdc++ 12 predates LWG 3655 for pointers to member FUNCTIONS of a union applied to the union
           itself (it asks is_base_of only): no reference answer there *)
        let std_na = is_union_pm f && (match qs with IQMemFn (_, ODirect, _, _) -> true | _ -> false) in
        if not std_na then begin
          obl "specval" "INVOKE (case analysis)" key
            (conj (sp "zi::agree<std::invoke_result<%s>, %s>" (la "std") (qcxx "std" qs)
                   :: sp "std::is_invocable_v<%s> == zi::has<%s>" (la "std") (qcxx "std" qs)
                   :: List.map (fun r -> sp "std::is_invocable_r_v<%s, %s> == zi::conv_s<%s, %s, %s>" (icxx "std" r) (la "std") (qcxx "std" qs) (icxx "std" r) (bs (std_is_void r))) rs));
          obl "prop" "INVOKE (etl == std)" key
            (conj (sp "zi::agree<etl::invoke_result<%s>, std::invoke_result<%s>>" (la "etl") (la "std")
                   :: sp "etl::is_invocable_v<%s> == std::is_invocable_v<%s>" (la "etl") (la "std")
                   :: sp "etl::invocable<%s> == std::invocable<%s>" (la "etl") (la "std")
                   :: sp "etl::regular_invocable<%s> == std::regular_invocable<%s>" (la "etl") (la "std")
                   :: List.map (fun r -> sp "etl::is_invocable_r_v<%s, %s> == std::is_invocable_r_v<%s, %s>" (icxx "etl" r) (la "etl") (icxx "std" r) (la "std")) rs))
        end;
        (* the invariance theorems, on the library itself: the qualification of a pointer-to-member callable
           changes nothing (C15_invoke_cv_invariant / C15_invoke_ref_invariant) *)
        if callable_is_memptr f && fq <> f then
          obl "corr" "INVOKE (qualification of the callable)" key
            (sp "zi::agree<etl::invoke_result<%s>, etl::invoke_result<%s>> && etl::is_invocable_v<%s> == etl::is_invocable_v<%s>"
               (la "etl") (String.concat ", " (List.map (icxx "etl") (f :: args))) (la "etl") (String.concat ", " (List.map (icxx "etl") (f :: args))));
        if qm <> qs then line [ "M"; "INVOKE (case analysis)"; key; qcxx "etl" qm; qcxx "std" qs ]
      end)
    combos;
  (* ---- ill-formed instantiations (each its own TU): expect 1 = compiles, 0 = rejected *)
  let neg leg trait key expect snippet = line [ "N"; leg; trait; key; (if expect then "1" else "0"); snippet ] in
  List.iter (fun (nm, t) ->
    let mk ns = sp "using X = %s::%s_t<%s>;" ns nm (cxx t) in
    let mo = (if nm = "make_signed" then make_signed_m else make_unsigned_m) k t in
    let so = (if nm = "make_signed" then std_make_signed else std_make_unsigned) t in
    neg "corr" nm (cxx t) (mo <> None) (mk "etl");
    neg "specval" nm (cxx t) (so <> None) (mk "std"))
    (List.concat_map (fun t -> [ "make_signed", t; "make_unsigned", t ])
       (* (libstdc++ accepts make_signed<const bool>, which [meta.trans.sign] makes ill-formed: not listed) *)
       [ Arith ABool; Arith AFloat; Ptr int_; Arith AChar; Class c_plain; Void; Arith ALDouble; Nullptr ]);
  (* ---- [meta.logical]: values, short-circuit instantiation, base class *)
  line [ "H"; "namespace z { struct novalue { }; }" ];
  List.iter (fun (k, c) -> obl "prop" "logical" k c)
    [ "conjunction values", "etl::conjunction_v<> && etl::conjunction_v<std::true_type> && !etl::conjunction_v<std::false_type> && etl::conjunction_v<std::true_type, std::true_type> && !etl::conjunction_v<std::true_type, std::false_type, std::true_type>";
      "disjunction values", "!etl::disjunction_v<> && etl::disjunction_v<std::true_type> && !etl::disjunction_v<std::false_type> && etl::disjunction_v<std::false_type, std::true_type> && !etl::disjunction_v<std::false_type, std::false_type>";
      "conjunction short-circuit", "!etl::conjunction_v<std::false_type, z::novalue> && !etl::conjunction<std::true_type, std::false_type, z::novalue>::value";
      "disjunction short-circuit", "etl::disjunction_v<std::true_type, z::novalue> && etl::disjunction<std::false_type, std::true_type, z::novalue>::value";
      "conjunction base", "std::is_base_of_v<std::integral_constant<int, 0>, etl::conjunction<std::integral_constant<int, 2>, std::integral_constant<int, 0>, std::integral_constant<int, 4>>> && std::is_base_of_v<std::integral_constant<int, 4>, etl::conjunction<std::integral_constant<int, 2>, std::integral_constant<int, 4>>>";
      "disjunction base", "std::is_base_of_v<std::integral_constant<int, 2>, etl::disjunction<std::integral_constant<int, 0>, std::integral_constant<int, 2>, std::integral_constant<int, 4>>> && std::is_base_of_v<std::integral_constant<int, 0>, etl::disjunction<std::integral_constant<int, 0>, std::integral_constant<int, 0>>>";
      "negation", "etl::negation_v<std::false_type> && !etl::negation_v<std::true_type> && !etl::negation<std::integral_constant<int, 3>>::value";
      "bool_constant", "std::is_same_v<etl::true_type::value_type, bool> && etl::true_type::value && !etl::false_type{} && etl::bool_constant<true>{}() && std::is_same_v<etl::integral_constant<int, 3>::type, etl::integral_constant<int, 3>> && etl::integral_constant<long, 7>::value == 7";
      "enable_if", "std::is_same_v<etl::enable_if_t<true, int>, int> && std::is_same_v<etl::enable_if_t<true>, void> && std::is_same_v<etl::void_t<int, char>, void>";
      "aligned_storage", "sizeof(etl::aligned_storage_t<13, 4>) >= 13 && alignof(etl::aligned_storage_t<13, 4>) == 4 && sizeof(etl::aligned_storage_t<5, 8>) >= 5 && alignof(etl::aligned_storage_t<5, 8>) == 8 && alignof(etl::aligned_storage_t<16>) == alignof(std::aligned_storage_t<16>)";
      "aligned_union", "sizeof(etl::aligned_union_t<3, int, double>) >= 8 && alignof(etl::aligned_union_t<3, int, double>) == alignof(double) && etl::aligned_union<0, char, long double>::alignment_value == std::aligned_union<0, char, long double>::alignment_value && sizeof(etl::aligned_union_t<40, char>) >= 40";
    ];
  print_string (Buffer.contents out)

(* ------------------------------------------------------------------ run-time case protocol *)
let lval_s = function
  | LB b -> "b " ^ b2s b
  | LI z -> "i " ^ str_of_z z
  | LF (m, e) -> sp "f %s %s" (str_of_z m) (str_of_z e)
  | LInf -> "inf"
  | LNaN s -> if s then "nan s" else "nan q"
let lmem_names =
  [ "is_specialized"; "min"; "max"; "lowest"; "digits"; "digits10"; "max_digits10"; "is_signed";
    "is_integer"; "is_exact"; "radix"; "epsilon"; "round_error"; "min_exponent"; "min_exponent10";
    "max_exponent"; "max_exponent10"; "has_infinity"; "has_quiet_NaN"; "has_signaling_NaN";
    "has_denorm"; "has_denorm_loss"; "infinity"; "quiet_NaN"; "signaling_NaN"; "denorm_min";
    "is_iec559"; "is_bounded"; "is_modulo"; "traps"; "tinyness_before"; "round_style" ]
let lmem_of_name s =
  let rec go ns ms = match ns, ms with
    | n :: nr, m :: mr -> if n = s then m else go nr mr
    | _ -> raise Not_found in
  go lmem_names all_lmem
let spec_cache : (string, string) Hashtbl.t = Hashtbl.create 64
let r2 = function Some (n, d) -> sp "ok %s %s" (str_of_z n) (str_of_z d) | None -> "illformed"
let rb = function Some b -> "ok " ^ b2s b | None -> "illformed"

let run_case op t =
  match op with
  | "nl" ->
      (* nl <arith tag> <cv code 0..3> <member> : numeric_limits<T cv>::member *)
      let a = arith_of_tag (next_str t) in
      let _cv = next_int t in
      let mn = next_str t in
      let m = lmem_of_name mn in
      let key = arith_tag a ^ " " ^ mn in
      let s =
        match Hashtbl.find_opt spec_cache key with
        | Some s -> s
        | None ->
            let s = match limits_spec_p !plat a m with Some v -> lval_s v | None -> "na" in
            Hashtbl.add spec_cache key s; s in
      (lval_s (limits_mp !plat a m), s)
  | "ratio" ->
      let n = next_z t in let d = next_z t in
      (r2 (ratio_m n d), r2 (ratio_spec n d))
  | "ratio_add" | "ratio_subtract" | "ratio_multiply" | "ratio_divide" ->
      let a = next_z t in let b = next_z t in let c = next_z t in let d = next_z t in
      let fm, fs = match op with
        | "ratio_add" -> ratio_add_m, ratio_add_spec
        | "ratio_subtract" -> ratio_subtract_m, ratio_subtract_spec
        | "ratio_multiply" -> ratio_multiply_m, ratio_multiply_spec
        | _ -> ratio_divide_m, ratio_divide_spec in
      let m = match ratio_m a b, ratio_m c d with
        | Some (n1, d1), Some (n2, d2) -> (match fm n1 d1 n2 d2 with Some (n, d) -> sp "ok %s %s 1" (str_of_z n) (str_of_z d) | None -> "illformed")
        | _ -> "illformed" in
      let s = match ratio_spec a b, ratio_spec c d with
        | Some (n1, d1), Some (n2, d2) -> (match fs n1 d1 n2 d2 with Some (n, d) -> sp "ok %s %s 1" (str_of_z n) (str_of_z d) | None -> "illformed")
        | _ -> "illformed" in
      (m, s)
  | "ratio_equal" | "ratio_not_equal" | "ratio_less" | "ratio_less_equal" | "ratio_greater" | "ratio_greater_equal" ->
      let a = next_z t in let b = next_z t in let c = next_z t in let d = next_z t in
      let fm = match op with
        | "ratio_equal" -> ratio_equal_m | "ratio_not_equal" -> ratio_not_equal_m
        | "ratio_less" -> ratio_less_m | "ratio_less_equal" -> ratio_less_equal_m
        | "ratio_greater" -> ratio_greater_m | _ -> ratio_greater_equal_m in
      let fs n1 d1 n2 d2 = match op with
        | "ratio_equal" -> ratio_equal_spec n1 d1 n2 d2
        | "ratio_not_equal" -> not (ratio_equal_spec n1 d1 n2 d2)
        | "ratio_less" -> ratio_less_spec n1 d1 n2 d2
        | "ratio_less_equal" -> not (ratio_less_spec n2 d2 n1 d1)
        | "ratio_greater" -> ratio_less_spec n2 d2 n1 d1
        | _ -> not (ratio_less_spec n1 d1 n2 d2) in
      let m = match ratio_m a b, ratio_m c d with
        | Some (n1, d1), Some (n2, d2) -> rb (fm n1 d1 n2 d2)
        | _ -> "illformed" in
      let s = match ratio_spec a b, ratio_spec c d with
        | Some (n1, d1), Some (n2, d2) -> "ok " ^ b2s (fs n1 d1 n2 d2)
        | _ -> "illformed" in
      (m, s)
  | "ksign" ->
      let v = next_z t in
      ("ok " ^ str_of_z (sign_m v), match sign_spec v with Some s -> "ok " ^ str_of_z s | None -> "na")
  | "kabs" ->
      let v = next_z t in
      ((match abs_m v with Some a -> "ok " ^ str_of_z a | None -> "illformed"),
       (match abs_spec v with Some a -> "ok " ^ str_of_z a | None -> "na"))
  | "kgcd" ->
      let m = next_z t in let n = next_z t in
      ((match gcd_m m n with Some g -> "ok " ^ str_of_z g | None -> "fuel"),
       (match gcd_spec m n with Some g -> "ok " ^ str_of_z g | None -> "na"))
  | "kless" ->
      let n1 = next_z t in let d1 = next_z t in let n2 = next_z t in let d2 = next_z t in
      ((match ratio_less_m n1 d1 n2 d2 with Some b -> "ok " ^ b2s b | None -> "fuel-or-overflow"),
       "ok " ^ b2s (ratio_less_spec n1 d1 n2 d2))
  | _ -> raise Not_found

let () =
  match Array.to_list Sys.argv with
  | _ :: "--emit" :: tier :: cfgs :: seed :: _ -> emit tier cfgs (int_of_string seed)
  | _ :: "--zoo" :: tier :: seed :: _ ->
      List.iter (fun t -> print_endline (cxx t)) (zoo tier (int_of_string seed))
  | _ -> main run_case
