// C15 harness: the run-time observable parts of the property.
//   nl <arith tag> <cv 0..3> <member>     etl::numeric_limits<T cv>::member | std::numeric_limits<T cv>::member
//   ratio <n> <d>                         etl::ratio<n,d>::num den           | std::ratio<n,d>::num den
//   ratio_add/... <a> <b> <c> <d>         num den + "does the alias name ratio<num,den>" (etl | std)
//   ratio_equal/... <a> <b> <c> <d>       value (etl | std)
//   ksign <v> / kabs <v> / kgcd <m> <n> / kless <n1> <d1> <n2> <d2>
//                                         detail::sign, etl::abs(long), etl::gcd(long, long), detail::ratio_less_impl
//                                         called at RUN time on seeded 64-bit values | exact __int128 arithmetic
// Template arguments must be constants: the ratio cases are looked up in the checked-in, generated
// table ratio_table.inc (prop.py --regen); a case that is not in the table prints "notable".
// Values are printed canonically: "b 0|1" bool, "i <n>" integer, "f <m> <e>" = m * 2^e with m odd,
// "inf", "nan".  Everything else about traits/concepts is checked at compile time by the generated
// static_assert translation units (prop.py extra_checks).
#include "common.hpp"

#include <etl/cstdint.hpp>
#include <etl/limits.hpp>
#include <etl/numeric.hpp>
#include <etl/ratio.hpp>
#include <etl/type_traits.hpp>

#include <cmath>
#include <cstdint>
#include <cstring>
#include <limits>
#include <map>
#include <ratio>
#include <tuple>
#include <type_traits>

namespace {

using vh::i128;
using vh::Out;

template <typename V>
void put(Out& o, V v)
{
    using U = std::remove_cv_t<V>;
    if constexpr (std::is_same_v<U, bool>) {
        o.tok("b").num(v ? 1 : 0);
    } else if constexpr (std::is_floating_point_v<U>) {
        long double x = static_cast<long double>(v);
        if (std::isnan(x)) {
            // quiet or signaling: the is_quiet bit (most significant fraction bit) of the value in its OWN format
            // (the conversion to long double above quiets a signaling NaN); the sign and the payload are not compared
            bool quiet = true;
            if constexpr (sizeof(U) == 4) {
                std::uint32_t b = 0;
                std::memcpy(&b, &v, 4);
                quiet = (b & 0x00400000U) != 0;
            } else if constexpr (sizeof(U) == 8) {
                std::uint64_t b = 0;
                std::memcpy(&b, &v, 8);
                quiet = (b & (1ULL << 51)) != 0;
            } else {
                std::uint64_t b = 0; // x87 extended: bit 63 is the explicit integer bit, bit 62 the quiet bit
                std::memcpy(&b, &v, 8);
                quiet = (b & (1ULL << 62)) != 0;
            }
            o.tok("nan").tok(quiet ? "q" : "s");
        } else if (std::isinf(x)) {
            o.tok(x > 0 ? "inf" : "-inf");
        } else if (x == 0) {
            o.tok("f").num(0).num(0);
        } else {
            int e        = 0;
            long double f = std::frexp(x < 0 ? -x : x, &e);                    // f in [0.5, 1)
            auto m       = static_cast<unsigned long long>(std::ldexp(f, 64)); // exact: 64-bit mantissa
            e -= 64;
            while ((m & 1ULL) == 0) {
                m >>= 1;
                ++e;
            }
            o.tok("f").big(x < 0 ? -static_cast<i128>(m) : static_cast<i128>(m)).num(e);
        }
    } else if constexpr (std::is_enum_v<U>) {
        o.tok("i").num(static_cast<long long>(v));
    } else {
        o.tok("i").big(static_cast<i128>(v));
    }
}

// members whose type is T itself: printed as a number also for T = bool
template <typename V>
void putv(Out& o, V v)
{
    if constexpr (std::is_same_v<std::remove_cv_t<V>, bool>) {
        o.tok("i").num(v ? 1 : 0);
    } else {
        put(o, v);
    }
}

template <template <typename> typename L, typename T>
bool member(std::string const& m, Out& o)
{
    using N = L<T>;
    if (m == "is_specialized") { put(o, N::is_specialized); }
    else if (m == "min") { putv(o, N::min()); }
    else if (m == "max") { putv(o, N::max()); }
    else if (m == "lowest") { putv(o, N::lowest()); }
    else if (m == "digits") { put(o, N::digits); }
    else if (m == "digits10") { put(o, N::digits10); }
    else if (m == "max_digits10") { put(o, N::max_digits10); }
    else if (m == "is_signed") { put(o, N::is_signed); }
    else if (m == "is_integer") { put(o, N::is_integer); }
    else if (m == "is_exact") { put(o, N::is_exact); }
    else if (m == "radix") { put(o, N::radix); }
    else if (m == "epsilon") { putv(o, N::epsilon()); }
    else if (m == "round_error") { putv(o, N::round_error()); }
    else if (m == "min_exponent") { put(o, N::min_exponent); }
    else if (m == "min_exponent10") { put(o, N::min_exponent10); }
    else if (m == "max_exponent") { put(o, N::max_exponent); }
    else if (m == "max_exponent10") { put(o, N::max_exponent10); }
    else if (m == "has_infinity") { put(o, N::has_infinity); }
    else if (m == "has_quiet_NaN") { put(o, N::has_quiet_NaN); }
    else if (m == "has_signaling_NaN") { put(o, N::has_signaling_NaN); }
    else if (m == "has_denorm") { put(o, N::has_denorm); }
    else if (m == "has_denorm_loss") { put(o, N::has_denorm_loss); }
    else if (m == "infinity") { putv(o, N::infinity()); }
    else if (m == "quiet_NaN") { putv(o, N::quiet_NaN()); }
    else if (m == "signaling_NaN") { putv(o, N::signaling_NaN()); }
    else if (m == "denorm_min") { putv(o, N::denorm_min()); }
    else if (m == "is_iec559") { put(o, N::is_iec559); }
    else if (m == "is_bounded") { put(o, N::is_bounded); }
    else if (m == "is_modulo") { put(o, N::is_modulo); }
    else if (m == "traps") { put(o, N::traps); }
    else if (m == "tinyness_before") { put(o, N::tinyness_before); }
    else if (m == "round_style") { put(o, N::round_style); }
    else { return false; }
    return true;
}

template <typename T>
bool limits_cv(int cv, std::string const& m, Out& impl, Out& ref)
{
    bool ok = false;
    switch (cv) {
    case 0: ok = member<etl::numeric_limits, T>(m, impl) && member<std::numeric_limits, T>(m, ref); break;
    case 1: ok = member<etl::numeric_limits, T const>(m, impl) && member<std::numeric_limits, T const>(m, ref); break;
    case 2: ok = member<etl::numeric_limits, T volatile>(m, impl) && member<std::numeric_limits, T volatile>(m, ref); break;
    default:
        ok = member<etl::numeric_limits, T const volatile>(m, impl) && member<std::numeric_limits, T const volatile>(m, ref);
        break;
    }
    // `traps` is implementation-specific ([numeric.limits.members]: "true if, at the start of the program, there
    // exists a value of the type that would cause an arithmetic operation using that value to trap").  For the
    // integer types other than bool and for the floating-point types etl, libstdc++ and libc++ agree on x86-64
    // (true: integer division by zero traps; false for floating point), so those are compared; for bool the
    // libraries differ (libstdc++: true, like every integer type; etl and libc++: false, a bool operand is promoted
    // to int before any arithmetic): no reference value there, and the specification leg has none for any type.
    if (m == "traps" && std::is_same_v<T, bool>) {
        ref.s.clear();
        ref.tok("na");
    }
    return ok;
}

bool limits(std::string const& a, int cv, std::string const& m, Out& impl, Out& ref)
{
    if (a == "b") { return limits_cv<bool>(cv, m, impl, ref); }
    if (a == "c") { return limits_cv<char>(cv, m, impl, ref); }
    if (a == "sc") { return limits_cv<signed char>(cv, m, impl, ref); }
    if (a == "uc") { return limits_cv<unsigned char>(cv, m, impl, ref); }
    if (a == "wc") { return limits_cv<wchar_t>(cv, m, impl, ref); }
    if (a == "c8") { return limits_cv<char8_t>(cv, m, impl, ref); }
    if (a == "c16") { return limits_cv<char16_t>(cv, m, impl, ref); }
    if (a == "c32") { return limits_cv<char32_t>(cv, m, impl, ref); }
    if (a == "s") { return limits_cv<short>(cv, m, impl, ref); }
    if (a == "us") { return limits_cv<unsigned short>(cv, m, impl, ref); }
    if (a == "i") { return limits_cv<int>(cv, m, impl, ref); }
    if (a == "u") { return limits_cv<unsigned int>(cv, m, impl, ref); }
    if (a == "l") { return limits_cv<long>(cv, m, impl, ref); }
    if (a == "ul") { return limits_cv<unsigned long>(cv, m, impl, ref); }
    if (a == "ll") { return limits_cv<long long>(cv, m, impl, ref); }
    if (a == "ull") { return limits_cv<unsigned long long>(cv, m, impl, ref); }
    if (a == "f") { return limits_cv<float>(cv, m, impl, ref); }
    if (a == "d") { return limits_cv<double>(cv, m, impl, ref); }
    if (a == "ld") { return limits_cv<long double>(cv, m, impl, ref); }
    return false;
}

// ---- ratio table -------------------------------------------------------------------------
struct Row {
    char const* op;
    long long a, b, c, d;
    long long en, ed, sn, sd; // etl / std result (num, den) or (value, 0)
    bool etype, stype;        // the alias names ratio<num, den> itself
};

#define R_NEW(a, b)                                                                                                    \
    Row { "ratio", a, b, 0, 0, etl::ratio<a, b>::num, etl::ratio<a, b>::den, std::ratio<a, b>::num,                    \
        std::ratio<a, b>::den,                                                                                         \
        std::is_same_v<typename etl::ratio<a, b>::type, etl::ratio<etl::ratio<a, b>::num, etl::ratio<a, b>::den>>,     \
        std::is_same_v<typename std::ratio<a, b>::type, std::ratio<std::ratio<a, b>::num, std::ratio<a, b>::den>> },
#define R_ARITH(op, a, b, c, d)                                                                                        \
    Row { #op, a, b, c, d, etl::op<etl::ratio<a, b>, etl::ratio<c, d>>::num,                                           \
        etl::op<etl::ratio<a, b>, etl::ratio<c, d>>::den, std::op<std::ratio<a, b>, std::ratio<c, d>>::num,            \
        std::op<std::ratio<a, b>, std::ratio<c, d>>::den,                                                              \
        std::is_same_v<etl::op<etl::ratio<a, b>, etl::ratio<c, d>>,                                                    \
            etl::ratio<etl::op<etl::ratio<a, b>, etl::ratio<c, d>>::num,                                               \
                etl::op<etl::ratio<a, b>, etl::ratio<c, d>>::den>>,                                                    \
        std::is_same_v<std::op<std::ratio<a, b>, std::ratio<c, d>>,                                                    \
            std::ratio<std::op<std::ratio<a, b>, std::ratio<c, d>>::num,                                               \
                std::op<std::ratio<a, b>, std::ratio<c, d>>::den>> },
#define R_CMP(op, a, b, c, d)                                                                                          \
    Row { #op, a, b, c, d, etl::op##_v<etl::ratio<a, b>, etl::ratio<c, d>>, 0,                                         \
        std::op##_v<std::ratio<a, b>, std::ratio<c, d>>, 0,                                                            \
        etl::op<etl::ratio<a, b>, etl::ratio<c, d>>::value == etl::op##_v<etl::ratio<a, b>, etl::ratio<c, d>>, true },

Row const rows[] = {
#include "ratio_table.inc"
};

using Key = std::tuple<std::string, long long, long long, long long, long long>;
std::map<Key, Row const*> const& index()
{
    static std::map<Key, Row const*> m = [] {
        std::map<Key, Row const*> r;
        for (auto const& row : rows) { r[Key { row.op, row.a, row.b, row.c, row.d }] = &row; }
        return r;
    }();
    return m;
}

// exact reference arithmetic for the kernels
i128 ref_gcd(i128 a, i128 b)
{
    if (a < 0) { a = -a; }
    if (b < 0) { b = -b; }
    while (b != 0) {
        auto r = a % b;
        a      = b;
        b      = r;
    }
    return a;
}

constexpr long kmin = (-9223372036854775807L - 1);

// is etl::abs(V) a constant expression (SFINAE on a default template argument)
template <long V, long = etl::abs(V)>
constexpr bool abs_is_constant(int)
{
    return true;
}
template <long V>
constexpr bool abs_is_constant(...)
{
    return false;
}
static_assert(abs_is_constant<-5>(0));

// the straight-line / loop kernels the ratio templates are assembled from, called at RUN time with values
// from the seeded generator (the ratio templates themselves only take constants: ratio_table.inc)
bool kernels(std::string const& op, vh::Toks& in, Out& impl, Out& ref)
{
    static_assert(std::is_same_v<etl::intmax_t, long>);
    if (op == "ksign") {
        long v = in.num();
        static_assert(std::is_same_v<decltype(etl::detail::sign(v)), long>);
        impl.tok("ok").num(etl::detail::sign(v));
        if (v == 0) {
            ref.tok("na");
        } else {
            ref.tok("ok").num(v < 0 ? -1 : 1);
        }
        return true;
    }
    if (op == "kabs") {
        long v = in.num();
        static_assert(std::is_same_v<decltype(etl::abs(v)), long>);
        if (v == kmin) {
            // signed overflow: undefined at run time, "not a constant expression" at compile time (the grid's
            // ratio<INTMAX_MIN, d> rows must be rejected); asked of the constant evaluator here
            constexpr bool is_constant = abs_is_constant<kmin>(0);
            impl.tok(is_constant ? "ok-constant" : "illformed");
            ref.tok("na");
        } else {
            impl.tok("ok").num(etl::abs(v));
            ref.tok("ok").num(v < 0 ? -v : v);
        }
        return true;
    }
    if (op == "kgcd") {
        long m = in.num();
        long n = in.num();
        static_assert(std::is_same_v<decltype(etl::gcd(m, n)), long>);
        impl.tok("ok").num(etl::gcd(m, n));
        if (m == kmin || n == kmin) {
            ref.tok("na"); // [numeric.ops.gcd]: |m|, |n| must be representable
        } else {
            ref.tok("ok").big(ref_gcd(m, n));
        }
        return true;
    }
    if (op == "kless") {
        long n1 = in.num();
        long d1 = in.num();
        long n2 = in.num();
        long d2 = in.num();
        if (d1 <= 0 || d2 <= 0) { return false; }
        impl.tok("ok").num(etl::detail::ratio_less_impl(n1, d1, n2, d2) ? 1 : 0);
        ref.tok("ok").num(static_cast<i128>(n1) * d2 < static_cast<i128>(n2) * d1 ? 1 : 0);
        return true;
    }
    return false;
}

} // namespace

bool vh::run_case(std::string const& op, Toks& in, Out& impl, Out& ref)
{
    if (op == "ksign" || op == "kabs" || op == "kgcd" || op == "kless") { return kernels(op, in, impl, ref); }
    if (op == "nl") {
        auto a  = in.str();
        auto cv = static_cast<int>(in.num());
        auto m  = in.str();
        return limits(a, cv, m, impl, ref);
    }
    if (op.rfind("ratio", 0) == 0) {
        long long a = in.num();
        long long b = in.num();
        long long c = op == "ratio" ? 0 : in.num();
        long long d = op == "ratio" ? 0 : in.num();
        auto it     = index().find(Key { op, a, b, c, d });
        if (it == index().end()) {
            impl.tok("notable");
            return true;
        }
        Row const& r = *it->second;
        if (op == "ratio") {
            impl.tok("ok").num(r.en).num(r.ed);
            ref.tok("ok").num(r.sn).num(r.sd);
            if (!r.etype) { impl.tok("type-not-normalised"); }
        } else if (op == "ratio_add" || op == "ratio_subtract" || op == "ratio_multiply" || op == "ratio_divide") {
            impl.tok("ok").num(r.en).num(r.ed).num(r.etype ? 1 : 0);
            ref.tok("ok").num(r.sn).num(r.sd).num(r.stype ? 1 : 0);
        } else {
            impl.tok("ok").num(r.en);
            ref.tok("ok").num(r.sn);
            if (!r.etype) { impl.tok("struct-and-_v-differ"); }
        }
        return true;
    }
    return false;
}

VERIF_MAIN()
