# /verif build: Coq development (full .vo build), extraction, OCaml drivers.
SHELL := /bin/bash
COQDIR := coq
J ?= 16

.PHONY: setup coq coqproject coqproject-locked drivers harnesses clean

setup: coq drivers harnesses

coqproject:
	@cd $(COQDIR) && flock .project.lock $(MAKE) -s -C $(CURDIR) coqproject-locked

coqproject-locked:
	@python3 translate/run_all.py >/dev/null || echo "translator refused a kernel (see ./check of the property)"
	@python3 tools/stale_vo.py >/dev/null || true
	@cd $(COQDIR) && { echo "-Q . Tetl"; echo "-arg -w -arg -notation-overridden,-deprecated-hint-without-locality,-deprecated-instance-without-locality"; find . -name '*.v' -not -path './Gen/*' | sed 's|^\./||' | LC_ALL=C sort; [ -d Gen ] && find Gen -name '*.v' | LC_ALL=C sort; true; } > _CoqProject.new
	@cd $(COQDIR) && if ! cmp -s _CoqProject.new _CoqProject; then mv _CoqProject.new _CoqProject; coq_makefile -f _CoqProject -o Makefile; else rm -f _CoqProject.new; fi
	@cd $(COQDIR) && [ -f Makefile ] || coq_makefile -f _CoqProject -o Makefile

# A file that does not build must not stop the others nor the setup: every check rebuilds the closure of its own
# property and reports what does not check there.
coq: coqproject
	cd $(COQDIR) && { timeout 3000 $(MAKE) -k -j$(J) || echo "SETUP NOTE: some Coq files did not build; the checks of the properties that depend on them report it"; }

drivers: coq
	python3 -c "import sys; sys.path.insert(0,'.'); from vlib import engine; engine.build_all_drivers()" || echo "SETUP NOTE: some drivers did not build"

harnesses:
	python3 -c "import sys; sys.path.insert(0,'.'); from vlib import engine; engine.build_all_harnesses()" || echo "SETUP NOTE: some harnesses did not build"

clean:
	cd $(COQDIR) && { [ -f Makefile ] && $(MAKE) clean; rm -f Makefile Makefile.conf _CoqProject *.ml *.mli .build.lock .project.lock; true; }
	rm -rf build
