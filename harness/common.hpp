// Common scaffolding for the correspondence harnesses (C++ side).
//
// Protocol: stdin = one case per line ("<op> <tokens...>"); stdout = one line per case:
//     "<impl tokens> | <reference tokens>"
// impl      = what the etl code under /repo/include did (the "E" leg)
// reference = what the property expects (std:: / libc / exact arithmetic) or "na" (the "S" leg)
//
// A contract violation (TETL_PRECONDITION firing) is observed through the library's own
// user-replaceable assert handler and reported as the token "contract".
// Crashes (sanitizer aborts, signals) are isolated by a supervising parent: the child that
// runs the cases is re-forked after the crashing case, whose impl leg becomes "crash <sig>".
#ifndef VERIF_COMMON_HPP
#define VERIF_COMMON_HPP

#ifndef TETL_ENABLE_CUSTOM_ASSERT_HANDLER
#define TETL_ENABLE_CUSTOM_ASSERT_HANDLER 1
#endif

#include <csetjmp>
#include <cstdint>
#include <cstdio>
#include <cstdlib>
#include <cstring>
#include <sstream>
#include <string>
#include <vector>

#include <sys/mman.h>
#include <sys/wait.h>
#include <unistd.h>

#include <etl/cassert.hpp>

namespace vh {

inline std::jmp_buf g_jmp;
inline bool g_armed          = false;
inline int g_contract_line   = 0;
inline char const* g_contract_file = nullptr;
inline char const* g_contract_expr = nullptr;
inline unsigned long g_contract_count = 0;

struct contract_violation { };

} // namespace vh

#ifndef VERIF_COMMON_NO_HANDLER   // a harness may install its own handler (C05 snapshots the object inside it)
namespace etl {
template <typename Assertion>
[[noreturn]] auto assert_handler(Assertion const& msg) -> void
{
    vh::g_contract_line = msg.line;
    vh::g_contract_file = msg.file;
    vh::g_contract_expr = msg.expression;
    ++vh::g_contract_count;
    if (vh::g_armed) {
        std::longjmp(vh::g_jmp, 1);
    }
    std::fprintf(stderr, "unexpected contract failure outside guarded region: %s:%d %s\n", msg.file, msg.line,
        msg.expression ? msg.expression : "?");
    std::_Exit(70);
}
} // namespace etl
#endif

namespace vh {

using i64  = long long;
using u64  = unsigned long long;
using i128 = __int128;

// ---- token reader ---------------------------------------------------------------------
struct Toks {
    std::vector<std::string> t;
    std::size_t i = 0;
    explicit Toks(std::string const& line)
    {
        std::istringstream is(line);
        std::string s;
        while (is >> s) { t.push_back(s); }
    }
    bool more() const { return i < t.size(); }
    std::string const& str() { static std::string const empty; return i < t.size() ? t[i++] : empty; }
    i64 num()
    {
        auto const& s = str();
        return std::strtoll(s.c_str(), nullptr, 10);
    }
    u64 unum()
    {
        auto const& s = str();
        return std::strtoull(s.c_str(), nullptr, 10);
    }
    // a size_t argument: non-negative decimal up to 2^64-1, or a negative number meaning its two's complement
    u64 sz()
    {
        auto const& s = str();
        if (!s.empty() && s[0] == '-') { return static_cast<u64>(std::strtoll(s.c_str(), nullptr, 10)); }
        return std::strtoull(s.c_str(), nullptr, 10);
    }
    // length-prefixed list of integers
    std::vector<i64> list()
    {
        auto n = num();
        std::vector<i64> v;
        for (i64 k = 0; k < n; ++k) { v.push_back(num()); }
        return v;
    }
};

// ---- output builder -------------------------------------------------------------------
struct Out {
    std::string s;
    Out& tok(char const* x)
    {
        if (!s.empty()) { s += ' '; }
        s += x;
        return *this;
    }
    Out& tok(std::string const& x) { return tok(x.c_str()); }
    Out& num(i64 x) { return tok(std::to_string(x)); }
    Out& unum(u64 x) { return tok(std::to_string(x)); }
    Out& big(i128 x)
    {
        if (x == 0) { return tok("0"); }
        bool neg = x < 0;
        unsigned __int128 u = neg ? -static_cast<unsigned __int128>(x) : static_cast<unsigned __int128>(x);
        std::string d;
        while (u != 0) { d.insert(d.begin(), static_cast<char>('0' + static_cast<int>(u % 10))); u /= 10; }
        if (neg) { d.insert(d.begin(), '-'); }
        return tok(d);
    }
    Out& b(bool x) { return tok(x ? "1" : "0"); }
    template <typename It>
    Out& list(It f, It l)
    {
        std::size_t n = 0;
        for (auto i = f; i != l; ++i) { ++n; }
        num(static_cast<i64>(n));
        for (auto i = f; i != l; ++i) { num(static_cast<i64>(*i)); }
        return *this;
    }
    template <typename C>
    Out& list(C const& c) { return list(c.begin(), c.end()); }
    bool empty() const { return s.empty(); }
};

inline int sign(i64 x) { return x < 0 ? -1 : (x > 0 ? 1 : 0); }

// Run `f(out)` with the contract handler armed; on a contract violation the output
// collected so far is discarded and replaced by the single token "contract".
template <typename F>
inline void guarded(Out& out, F&& f)
{
    // NOLINTNEXTLINE
    g_armed = true;
    if (setjmp(g_jmp) == 0) {
        f(out);
    } else {
        out.s.clear();
        out.tok("contract");
    }
    g_armed = false;
}

// per-property: run one case, fill impl and ref legs. Return false if op unknown.
bool run_case(std::string const& op, Toks& in, Out& impl, Out& ref);

inline int supervise(int argc, char** argv)
{
    bool nofork = false;
    for (int a = 1; a < argc; ++a) {
        if (std::strcmp(argv[a], "--nofork") == 0) { nofork = true; }
    }
    std::vector<std::string> cases;
    {
        std::string line;
        char buf[1 << 16];
        while (std::fgets(buf, sizeof buf, stdin) != nullptr) {
            line = buf;
            while (!line.empty() && (line.back() == '\n' || line.back() == '\r')) { line.pop_back(); }
            cases.push_back(line);
        }
    }
    auto* done = static_cast<volatile std::size_t*>(
        mmap(nullptr, sizeof(std::size_t), PROT_READ | PROT_WRITE, MAP_SHARED | MAP_ANONYMOUS, -1, 0));
    *done = 0;
    // watchdog: a case that does not return within VERIF_CASE_TIMEOUT seconds (default 60; a changed library may
    // loop forever) is killed by SIGALRM in the child and reported as "crash 14" like any other crash
    unsigned case_timeout = 60;
    if (char const* e = std::getenv("VERIF_CASE_TIMEOUT")) { case_timeout = static_cast<unsigned>(std::atoi(e)); }
    auto run_from = [&](std::size_t start) {
        for (std::size_t k = start; k < cases.size(); ++k) {
            if (!nofork && case_timeout != 0) { alarm(case_timeout); }
            Toks in(cases[k]);
            Out impl;
            Out ref;
            std::string op = in.str();
            if (op.empty() || op[0] == '#') {
                std::fputs("skip | na\n", stdout);
            } else {
                if (!run_case(op, in, impl, ref)) { impl.s = "unknown-op"; }
                if (impl.empty()) { impl.tok("void"); }
                if (ref.empty()) { ref.tok("na"); }
                std::fputs(impl.s.c_str(), stdout);
                std::fputs(" | ", stdout);
                std::fputs(ref.s.c_str(), stdout);
                std::fputc('\n', stdout);
            }
            if (!nofork) { std::fflush(stdout); }
            *done = k + 1;
        }
        if (!nofork) { alarm(0); }
        std::fflush(stdout);
    };
    if (nofork) {
        run_from(0);
        return 0;
    }
    std::size_t start = 0;
    while (start < cases.size()) {
        std::fflush(stdout);
        pid_t pid = fork();
        if (pid == 0) {
            run_from(start);
            std::_Exit(0);
        }
        int status = 0;
        waitpid(pid, &status, 0);
        if (WIFEXITED(status) && WEXITSTATUS(status) == 0 && *done == cases.size()) { break; }
        // the case at index *done crashed
        std::size_t bad = *done;
        if (bad >= cases.size()) { break; }
        int sig = WIFSIGNALED(status) ? WTERMSIG(status) : 1000 + WEXITSTATUS(status);
        std::printf("crash %d | na\n", sig);
        std::fflush(stdout);
        *done = bad + 1;
        start = bad + 1;
    }
    return 0;
}

} // namespace vh

#define VERIF_MAIN()                                                                                                   \
    int main(int argc, char** argv) { return vh::supervise(argc, argv); }

#endif
