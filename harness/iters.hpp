// Iterator wrappers over a raw pointer with a restricted category, for running etl algorithms
// through their non-random-access code paths.
#ifndef VERIF_ITERS_HPP
#define VERIF_ITERS_HPP
#include <etl/iterator.hpp>

namespace vh {

template <typename T, typename Tag>
struct WrapIt {
    using iterator_category = Tag;
    using value_type        = T;
    using difference_type   = etl::ptrdiff_t;
    using pointer           = T*;
    using reference         = T&;
    T* p{nullptr};
    WrapIt() = default;
    explicit WrapIt(T* q) : p{q} { }
    auto operator*() const -> T& { return *p; }
    auto operator->() const -> T* { return p; }
    auto operator++() -> WrapIt& { ++p; return *this; }
    auto operator++(int) -> WrapIt { auto t = *this; ++p; return t; }
    // only meaningful for bidirectional wrappers; forward wrappers never have it called
    auto operator--() -> WrapIt& { static_assert(!etl::is_same_v<Tag, etl::forward_iterator_tag>); --p; return *this; }
    auto operator--(int) -> WrapIt { auto t = *this; --(*this); return t; }
    friend auto operator==(WrapIt a, WrapIt b) -> bool { return a.p == b.p; }
    friend auto operator!=(WrapIt a, WrapIt b) -> bool { return a.p != b.p; }
};

template <typename T>
struct FwdIt {
    using iterator_category = etl::forward_iterator_tag;
    using value_type        = T;
    using difference_type   = etl::ptrdiff_t;
    using pointer           = T*;
    using reference         = T&;
    T* p{nullptr};
    FwdIt() = default;
    explicit FwdIt(T* q) : p{q} { }
    auto operator*() const -> T& { return *p; }
    auto operator->() const -> T* { return p; }
    auto operator++() -> FwdIt& { ++p; return *this; }
    auto operator++(int) -> FwdIt { auto t = *this; ++p; return t; }
    friend auto operator==(FwdIt a, FwdIt b) -> bool { return a.p == b.p; }
    friend auto operator!=(FwdIt a, FwdIt b) -> bool { return a.p != b.p; }
};

template <typename T>
struct BidiIt {
    using iterator_category = etl::bidirectional_iterator_tag;
    using value_type        = T;
    using difference_type   = etl::ptrdiff_t;
    using pointer           = T*;
    using reference         = T&;
    T* p{nullptr};
    BidiIt() = default;
    explicit BidiIt(T* q) : p{q} { }
    auto operator*() const -> T& { return *p; }
    auto operator->() const -> T* { return p; }
    auto operator++() -> BidiIt& { ++p; return *this; }
    auto operator++(int) -> BidiIt { auto t = *this; ++p; return t; }
    auto operator--() -> BidiIt& { --p; return *this; }
    auto operator--(int) -> BidiIt { auto t = *this; --p; return t; }
    friend auto operator==(BidiIt a, BidiIt b) -> bool { return a.p == b.p; }
    friend auto operator!=(BidiIt a, BidiIt b) -> bool { return a.p != b.p; }
};

} // namespace vh
#endif
